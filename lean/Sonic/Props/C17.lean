import Sonic.Model.Access
import Sonic.Model.Lock
import Sonic.Proofs.ConcurrencyLock
import Sonic.Proofs.ConcurrencyAccess
import Sonic.Proofs.ConcurrencyOwn
import Sonic.Proofs.ConcurrencyFacts

/-!
# C17 — Independent documents and shared read-only documents are free of data races

> Threads that each parse, mutate and serialise their own documents never race with each other; any number
> of threads may concurrently perform read-only operations (type tests, getters, iteration, FindMember,
> operator[] whether or not the key exists, AtPointer, Serialize into their own buffer) on one shared
> document; and when the library is built with the locked-allocator option, threads may allocate from one
> shared pool concurrently and still receive disjoint, intact blocks.
> Quantifier: for every interleaving of the threads' operations.

## What is proved, and about what

These are theorems about two **models**, not about the compiled code:

* the **footprint model** `Sonic.Model.Access`: every API call has an explicit list of read/write accesses
  to abstract locations (`C17_readonly_footprint`, `C17_static_null_inv`, `C17_readonly_drf`,
  `C17_independent_drf`).  A data race is a pair of conflicting accesses (overlapping locations, at least one
  write, different threads) not ordered by happens-before; in these two scenarios the threads do not
  synchronise between start and join, so *every* cross-thread pair is unordered and race freedom is
  "no conflicting cross-thread pair" (`RaceFree`), for every schedule;
* the **interleaving model** `Sonic.Model.Lock`: small-step semantics of `SpinLock` and of the locked
  `MemoryPoolAllocator` over the sequential pool model `Sonic.Model.Pool` (`C17_spinlock_mutex`,
  `C17_locked_pool`, `C17_realloc_window_note`), for every schedule and any number of threads.

Runtime facts that are **assumed**:
1. the footprints are what the compiled code accesses.  This is validated separately by running `thr-ro`,
   `thr-own`, `thr-pool` under ThreadSanitizer (a forgotten write shows up as a reported race);
2. the C++ memory model: a successful `exchange(true, acquire)` that reads the value stored by
   `store(false, release)` synchronises with it, so guarded regions of one lock are totally ordered by
   happens-before (their order is the order of the interleaving); atomic operations themselves never race;
   the initialisation of the function-local `static DNode tmp` is thread-safe (C++11);
3. the sequential pool model's trusted base (`Model/Pool.lean`): base `Malloc` succeeds and returns fresh,
   pairwise disjoint, 8-aligned regions; sizes `< 2^32`.

Scope notes (findings while modelling):
* `SpinLock lock_` is a member of the allocator **object**, not of its `SharedData`.  Two *copies* of a
  `MemoryPoolAllocator` share chunks but not the lock, so `SONIC_LOCKED_ALLOCATOR` only protects threads that
  use the *same object* (by reference/pointer).  The model covers exactly that scenario (as `thr-pool` does).
* The fallback node of `operator[]` is process-wide.  Read-only callers never write it (since the fix
  "reset only if not null"), but a caller that *writes through* the reference returned for a missing key
  makes every concurrent missing-key lookup in the process race – even on unrelated documents
  (`example` at the end).  `C17_independent_drf` therefore excludes that misuse explicitly.
-/

namespace Sonic.Props.C17
open Sonic.Model.Access Sonic.Model.Lock Sonic.Model.Pool Sonic.Proofs.Pool Sonic.Proofs.Concurrency

/-- two accesses conflict: overlapping locations, at least one write -/
abbrev Conflict := Sonic.Model.Access.Conflict
/-- no two accesses of different threads conflict -/
abbrev RaceFree := Sonic.Model.Access.RaceFree

/-! ## shared read-only document (footprint model) -/

/-- The fallback node `static DNode tmp` of `operator[]` is null initially and no read-only call makes it
    non-null: per call, and along every schedule of any number of threads. -/
theorem C17_static_null_inv :
    (∀ (op : ReadOp) (d : Doc), staticAfter true op d = true) ∧
    (∀ (d : Doc) (progs : List (List ReadOp)) (sched : List ThreadId),
      (roRun d (RoState.init progs) sched).staticIsNull = true) := by
  refine ⟨staticAfter_true, ?_⟩
  intro d progs sched
  have : ∀ (sched : List ThreadId) (s : RoState), s.staticIsNull = true → (roRun d s sched).staticIsNull = true := by
    intro sched
    induction sched with
    | nil => intro s hs; exact hs
    | cons t ts ih =>
      intro s hs
      simp only [roRun, List.foldl_cons]
      refine ih _ ?_
      unfold roStep
      split
      · next op rest _ => simp only; rw [hs]; exact staticAfter_true op d
      · exact hs
  exact this sched _ rfl

/-- FOOTPRINT statement.  For every read-only call, every document and every thread: every **write** access
    of the call goes to the caller's own thread-local storage or the caller's own buffer – never to a document
    node, its storage, the map, or the fallback node (`footprint` is the footprint with the fallback node
    null, which `C17_static_null_inv` shows is always the case). -/
theorem C17_readonly_footprint (op : ReadOp) (d : Doc) (t : ThreadId) :
    ∀ a ∈ footprint op d t, a.isWrite = true → a.loc = .threadLocal t ∨ a.loc = .wbuf t := by
  intro a ha hw
  rcases footprint_ok op d t a ha with (rfl | rfl) | ⟨hr, _⟩
  · exact Or.inl rfl
  · exact Or.inr rfl
  · rw [hr] at hw; cases hw

/-- …and every other access is a read of a document node / storage, the fallback node or the constant tables -/
theorem C17_readonly_footprint_reads (op : ReadOp) (d : Doc) (t : ThreadId) :
    ∀ a ∈ footprint op d t, a.isWrite = false →
      (∃ d' p, a.loc = .docNode d' p) ∨ (∃ d' p k, a.loc = .docStorage d' p k) ∨ a.loc = .staticNull ∨
        a.loc = .constData := by
  intro a ha hw
  rcases footprint_ok op d t a ha with (rfl | rfl) | ⟨_, hs⟩
  · cases hw
  · cases hw
  · rcases a with ⟨l, w⟩
    cases l <;> simp [isShared] at hs ⊢

/-- Any number of threads, each with any list of read-only calls on one shared document, every schedule:
    no two accesses of different threads conflict. -/
theorem C17_readonly_drf (d : Doc) (progs : List (List ReadOp)) (sched : List ThreadId) :
    RaceFree (roTrace d (RoState.init progs) sched) := by
  intro e1 he1 e2 he2 hne
  exact ok_no_conflict hne (roTrace_ok d sched _ rfl e1 he1) (roTrace_ok d sched _ rfl e2 he2)

/-! ## independent documents / allocators / buffers (footprint model) -/

/-- Threads working (parse, mutate, read, serialise, destroy – `OwnOp`) on pairwise distinct documents,
    allocators and buffers, none of which writes through the fallback node: the footprints of different
    threads are pairwise conflict-free, hence every schedule is race-free. -/
theorem C17_independent_drf (ws : List Worker)
    (hdoc : (ws.map (·.res.doc)).Nodup) (hpool : (ws.map (·.res.pool)).Nodup)
    (hbuf : (ws.map (·.res.buf)).Nodup)
    (hmis : ∀ w ∈ ws, OwnOp.writeFallback ∉ w.prog) :
    (∀ (i j : Nat) (wi wj : Worker), i ≠ j → ws[i]? = some wi → ws[j]? = some wj →
      ∀ opi ∈ wi.prog, ∀ opj ∈ wj.prog,
        ∀ a ∈ ownFootprintIn true wi.res i opi, ∀ b ∈ ownFootprintIn true wj.res j opj, ¬ Conflict a b) ∧
    (∀ sched : List ThreadId, RaceFree (ownTrace (OwnState.init ws) sched)) := by
  -- distinct resources, positionally
  have hdist : ∀ (i j : Nat) (wi wj : Worker), i ≠ j → ws[i]? = some wi → ws[j]? = some wj →
      wi.res.doc ≠ wj.res.doc ∧ wi.res.pool ≠ wj.res.pool ∧ wi.res.buf ≠ wj.res.buf := by
    have key : ∀ (f : Worker → Nat), (ws.map f).Nodup → ∀ (i j : Nat) (wi wj : Worker), i ≠ j →
        ws[i]? = some wi → ws[j]? = some wj → f wi ≠ f wj := by
      intro f hf i j wi wj hne hi hj
      obtain ⟨hli, ei⟩ := List.getElem?_eq_some_iff.mp hi
      obtain ⟨hlj, ej⟩ := List.getElem?_eq_some_iff.mp hj
      have hp := List.pairwise_iff_getElem.mp (List.nodup_iff_pairwise_ne.mp hf)
      rcases Nat.lt_or_gt_of_ne hne with hlt | hlt
      · have := hp i j (by simpa using hli) (by simpa using hlj) hlt
        simpa [ei, ej] using this
      · have := hp j i (by simpa using hlj) (by simpa using hli) hlt
        simp only [List.getElem_map, ei, ej] at this
        exact fun e => this e.symm
    intro i j wi wj hne hi hj
    exact ⟨key _ hdoc i j wi wj hne hi hj, key _ hpool i j wi wj hne hi hj, key _ hbuf i j wi wj hne hi hj⟩
  refine ⟨?_, ?_⟩
  · intro i j wi wj hne hi hj opi hopi opj hopj a ha b hb
    obtain ⟨d1, d2, d3⟩ := hdist i j wi wj hne hi hj
    have hmi : opi ≠ .writeFallback := fun e => hmis wi (List.mem_of_getElem? hi) (e ▸ hopi)
    have hmj : opj ≠ .writeFallback := fun e => hmis wj (List.mem_of_getElem? hj) (e ▸ hopj)
    exact ownRes_no_conflict hne d1 d2 d3 (ownFootprint_ok _ _ _ hmi a ha) (ownFootprint_ok _ _ _ hmj b hb)
  · intro sched e1 he1 e2 he2 hne
    let R : ThreadId → Res := fun t => ((ws[t]?).map (·.res)).getD ⟨0, 0, 0⟩
    have hinv : OwnInv R (OwnState.init ws) := by
      refine ⟨rfl, ?_⟩
      intro t w hw
      simp only [OwnState.init] at hw
      exact ⟨by simp [R, hw], hmis w (List.mem_of_getElem? hw)⟩
    have h1 := ownTrace_ok sched _ hinv e1 he1
    have h2 := ownTrace_ok sched _ hinv e2 he2
    have l1 := ownTrace_tid sched _ e1 he1
    have l2 := ownTrace_tid sched _ e2 he2
    simp only [OwnState.init] at l1 l2
    obtain ⟨d1, d2, d3⟩ := hdist e1.tid e2.tid ws[e1.tid] ws[e2.tid] hne (by simp [l1]) (by simp [l2])
    have r1 : R e1.tid = ws[e1.tid].res := by simp [R, l1]
    have r2 : R e2.tid = ws[e2.tid].res := by simp [R, l2]
    rw [r1] at h1; rw [r2] at h2
    exact ownRes_no_conflict hne d1 d2 d3 h1 h2

/-! ## `SpinLock` (interleaving model) -/

/-- In every reachable state of the interleaving semantics of `SpinLock` (any number of threads, every
    schedule): at most one thread is between a successful `exchange` and its `store(false)`; any two such
    threads are the same thread; and whenever the flag is clear nobody is inside. -/
theorem C17_spinlock_mutex (nthreads : Nat) (sched : List (Nat × Bool)) :
    let s := (SpinState.init nthreads).run sched
    s.holders ≤ 1 ∧
    (∀ i j : Nat, s.pcs[i]? = some SpinPc.held → s.pcs[j]? = some SpinPc.held → i = j) ∧
    (s.flag = false → s.holders = 0) := by
  intro s
  have h : SpinInv s := spinInv_run (spinInv_init nthreads) sched
  exact ⟨h.one, fun i j hi hj => spin_two h hi hj, h.free⟩

/- `C17_spinlock_progress_note`: **liveness is not claimed.**  `SpinLock::lock()` is a test-and-test-and-set
   spin loop: under an unfair scheduler (one that never schedules the holder, or always schedules a spinner
   right after another thread re-acquired the lock) a thread can spin forever; there is no fairness or bounded
   waiting.  The theorems here are safety properties that hold for *every* finite schedule, including those. -/

/-! ## locked pool (interleaving model over `Model/Pool`) -/

/-- **Ownership.**  A block (number `id`) is *owned* by the thread whose guarded `Malloc` returned it – a
    direct `Malloc` or the fallback `Malloc` inside a `Realloc` (`c.owner[id]`).  Ownership never changes
    (`owner_stable` below).  A `Realloc` that succeeds in place (or needs no growth) keeps the block: same
    number, same address, larger size.  A `Realloc` that moves creates a **new** block with a new number,
    owned by the same thread; the old block stays owned by that thread too (the pool never reuses its bytes,
    the thread may still read it – the `memcpy` does – but is expected to drop it). -/
def OwnerOf (c : CState) (id t : Nat) : Prop := c.owner[id]? = some t

/-- For every pool configuration, every list of request programs (any number of threads) and **every
    schedule**, in the state `c` reached and for the trace of accesses made: -/
theorem C17_locked_pool (kind : PolicyKind) (chunkcap : Nat) (progs : List (List Req)) (sched : List Nat) :
    let c := prun (CState.init kind chunkcap progs) sched
    -- (1) the shared pool state satisfies the sequential pool invariant after every atomic step: its
    --     allocator part (`ChunkInv`, `BlockInv`, `RefInv` – everything of `PoolInv` except `PatInv`) …
    (ChunkInv c.sh.pools c.sh.mem c.sh.freed c.sh.userRegs ∧ BlockInv c.sh.pools c.sh.blocks c.sh.nextBlock ∧
      RefInv c.sh.pools c.sh.slots) ∧
    --     … and `PatInv` for every byte that is not still to be written by its owner (the caller's fill after a
    --     `Malloc`, the tail after a growth, the `memcpy`+fill after a move, all done outside the lock) …
    (∀ b ∈ c.sh.blocks, ∀ i, i < b.req →
      (∀ (u : Nat) (thu : PThread), c.threads[u]? = some thu → pending thu.phase b.id i = false) →
      c.sh.mem.read b.reg (b.off + i) = some (pat b.id i)) ∧
    --     … hence the full `PoolInv` whenever no thread is in such a phase (e.g. when all threads are done)
    (Settled c → PoolInv c.sh) ∧
    -- (2) mutual exclusion: at most one thread is inside a guarded region, and then the flag is set
    (∀ (i j : Nat) (thi thj : PThread), c.threads[i]? = some thi → c.threads[j]? = some thj →
      thi.phase.holdsLock = true → thj.phase.holdsLock = true → i = j) ∧
    -- (3) blocks handed out (to different threads or to the same thread): pairwise disjoint, 8-aligned,
    --     inside readable memory, each with exactly one owner
    (∀ a ∈ c.sh.blocks, ∀ b ∈ c.sh.blocks, a.id ≠ b.id → Disjoint a b) ∧
    (∀ a ∈ c.sh.blocks, ∀ b ∈ c.sh.blocks, a.id = b.id → a = b) ∧
    (∀ b ∈ c.sh.blocks, b.off % 8 = 0 ∧ b.asz % 8 = 0 ∧ b.asz = alignUp b.req ∧ 0 < b.req ∧ b.req ≤ b.asz ∧
      (∃ t, OwnerOf c b.id t) ∧ ∀ i, i < b.asz → (c.sh.mem.read b.reg (b.off + i)).isSome) ∧
    -- (4) one more step of any thread `t`:
    (∀ t : Nat,
      -- ownership is stable
      (∀ id u, OwnerOf c id u → OwnerOf (pstep c t) id u) ∧
      -- contents are only changed by the owner: a defined byte that changes lies inside a block owned by `t`
      (∀ r o v, c.sh.mem.read r o = some v → (pstep c t).sh.mem.read r o ≠ some v →
        ∃ b ∈ c.sh.blocks, OwnerOf c b.id t ∧ r = b.reg ∧ b.off ≤ o ∧ o < b.off + b.asz) ∧
      -- so the blocks of everybody else keep their record and every byte of their aligned extent
      (∀ b ∈ c.sh.blocks, ¬ OwnerOf c b.id t → b ∈ (pstep c t).sh.blocks ∧
        ∀ i, i < b.asz → (pstep c t).sh.mem.read b.reg (b.off + i) = c.sh.mem.read b.reg (b.off + i)) ∧
      -- the private `memcpy` of a moving `Realloc`: source and destination are two disjoint blocks owned by
      -- `t`; it reads `align(src.req) = src.asz` bytes of the source, writes that many bytes at the start of
      -- the destination (which is at least that large) and nothing else; afterwards the destination starts
      -- with the source's contents
      (∀ src dst rq, c.threads[t]? = some ⟨.priv (.copy src dst), rq⟩ →
        ∃ bs ∈ c.sh.blocks, ∃ bd ∈ c.sh.blocks, bs.id = src ∧ bd.id = dst ∧
          OwnerOf c src t ∧ OwnerOf c dst t ∧ Disjoint bs bd ∧
          alignUp bs.req = bs.asz ∧ alignUp bs.req ≤ bd.asz ∧
          (pstep c t).sh.mem = c.sh.mem.copy bd.reg bd.off bs.reg bs.off (alignUp bs.req) ∧
          (∀ i, i < bs.req → (pstep c t).sh.mem.read bd.reg (bd.off + i) = some (pat bs.id i)) ∧
          (∀ r o, ¬ (r = bd.reg ∧ bd.off ≤ o ∧ o < bd.off + alignUp bs.req) →
            (pstep c t).sh.mem.read r o = c.sh.mem.read r o))) ∧
    -- (5) lock discipline of the whole trace: two conflicting (plain) accesses of different threads are always
    --     two accesses to the pool state made inside guarded regions (ordered by happens-before, assumption 2);
    --     in particular no access to a block – the `memcpy`, the fills – conflicts with any other thread
    (∀ e1 ∈ ptrace (CState.init kind chunkcap progs) sched, ∀ e2 ∈ ptrace (CState.init kind chunkcap progs) sched,
      e1.tid ≠ e2.tid → Conflict e1.acc e2.acc →
        (e1.acc.loc = .poolState 0 ∧ e1.locked = true) ∧ (e2.acc.loc = .poolState 0 ∧ e2.locked = true)) := by
  intro c
  have h0 := cinv_init kind chunkcap progs
  have h : CInv c := cinv_run h0 sched
  refine ⟨⟨h.shared.chunk, h.shared.block, h.shared.ref⟩, h.cont, poolInv_of_settled h, ?_, ?_, ?_, ?_, ?_, ?_⟩
  · intro i j thi thj hi hj hhi hhj; exact lock_unique h hi hj hhi hhj
  · intro a ha b hb hne; exact blocks_disjoint h ha hb hne
  · intro a ha b hb e; exact blocks_unique h ha hb e
  · intro b hb; exact block_facts h hb
  · intro t
    refine ⟨(step_ok h t).mono, fun r o v hv hc => step_writes_own h t hv hc,
      fun b hb ho => step_other_block h t hb ho, ?_⟩
    intro src dst rq ht
    exact copy_step h ht
  · intro e1 he1 e2 he2 hne hc
    exact eventOk_conflict (ptrace_ok sched h0 e1 he1) (ptrace_ok sched h0 e2 he2) hne hc

/-- a thread inside a guarded region sees the flag set, and with the flag clear nobody is inside -/
theorem C17_locked_pool_flag (kind : PolicyKind) (chunkcap : Nat) (progs : List (List Req)) (sched : List Nat)
    (t : Nat) (th : PThread)
    (ht : (prun (CState.init kind chunkcap progs) sched).threads[t]? = some th)
    (hh : th.phase.holdsLock = true) : (prun (CState.init kind chunkcap progs) sched).flag = true :=
  holds_flag' (cinv_run (cinv_init kind chunkcap progs) sched) ht hh

/-! ## the unguarded window of `Realloc` -/

/-- What happens between the failed in-place attempt (first guarded region of `Realloc`) and the fallback
    `Malloc` (second guarded region): other threads may run any number of guarded regions in between.
    (1) The invariant is an invariant of *every* step from *every* state satisfying it, so it holds throughout
        and after the window, whatever is scheduled inside it (the window is the phase `priv (retry blk new)`).
    (2) A failed attempt stays failed: any later pool state `p'` (`HeadLe`: same head chunk with a fill mark
        that did not decrease, or a head chunk in a region that did not exist yet) still refuses the in-place
        growth; a guarded `Malloc` and a successful in-place growth produce such states.
    (3) Hence at the second guarded region the sequential `Realloc` (`poolRealloc`) would also take the
        `Malloc` + `memcpy` path: the two-step execution equals the sequential `Realloc` executed at the time of
        the fallback `Malloc`. -/
theorem C17_realloc_window_note :
    (∀ c : CState, CInv c → ∀ sched, CInv (prun c sched)) ∧
    (∀ (p p' : Pool) (r o aold anew m : Nat), growInPlace p r o aold anew = none → r < m →
      (r = p.head.reg → o + aold ≤ p.head.size) → HeadLe m p p' → growInPlace p' r o aold anew = none) ∧
    (∀ (p : Pool) (cp : Policy) (mem : Mem) (size : Nat),
      HeadLe mem.size p (poolMalloc p cp mem size).pool ∧ mem.size ≤ (poolMalloc p cp mem size).mem.size) ∧
    (∀ (p p' : Pool) (r o aold anew m : Nat), growInPlace p r o aold anew = some p' → HeadLe m p p') ∧
    (∀ (p' : Pool) (cp : Policy) (mem : Mem) (r o old new : Nat), new ≠ 0 → alignUp old < alignUp new →
      growInPlace p' r o (alignUp old) (alignUp new) = none →
      poolRealloc p' cp mem (some (r, o)) old new =
        match (poolMalloc p' cp mem (alignUp new)).ptr with
        | some (r', o') =>
          { poolMalloc p' cp mem (alignUp new) with
            mem := if alignUp old ≠ 0 then (poolMalloc p' cp mem (alignUp new)).mem.copy r' o' r o (alignUp old)
                   else (poolMalloc p' cp mem (alignUp new)).mem }
        | none => poolMalloc p' cp mem (alignUp new)) := by
  refine ⟨fun c h sched => cinv_run h sched, fun p p' r o aold anew m h1 h2 h3 h4 =>
    growInPlace_none_stable h1 h2 h3 h4, poolMalloc_headLe, fun p p' r o aold anew m h => growInPlace_headLe m h, ?_⟩
  intro p' cp mem r o old new hn hlt hg
  rw [poolRealloc_split, if_neg hn, if_neg (by omega), hg]
  rfl

/-! ## non-vacuity: concrete instances -/

section examples
open Sonic.Model.Dom

/-- `{"a":[1,"x"],"b":null}` as `Parse` builds it (no map) -/
def exDoc : Doc :=
  ⟨0, .obj (some ⟨2, none⟩) [(.copy, [97], .arr (some 2) [.num (.uint 1), .str .copy [120]]), (.copy, [98], .null)]⟩

/-- the same document after `CreateMap` (lookups go through the multimap) -/
def exDocMap : Doc :=
  ⟨0, .obj (some ⟨2, some [([97], 0), ([98], 1)]⟩)
    [(.copy, [97], .arr (some 2) [.num (.uint 1), .str .copy [120]]), (.copy, [98], .null)]⟩

/-- three threads; thread 1 uses a missing-key `operator[]` (key `"c"`), thread 2 a present one -/
def exProgs : List (List ReadOp) :=
  [[.iterate [], .serialize [], .bufToString],
   [.index [] [99], .findMember [] [98], .atPointer [] [.key [97], .num 1], .eq [] []],
   [.index [] [97], .hasMember [] [99], .typeTest [1], .getter [1, 1], .size [1]]]

def exSched : List ThreadId := [0, 1, 2, 1, 0, 2, 1, 2, 0, 1, 2, 2, 0]

-- the missing-key `operator[]` reads the fallback node and writes nothing shared …
example : footprint (.index [] [99]) exDoc 1 =
    [wr (.threadLocal 1), rd (.docNode 0 []), rd (.docStorage 0 [] .hdr),
     rd (.docNode 0 [0]), rd (.docStorage 0 [0] .bytes), rd (.docNode 0 [2]), rd (.docStorage 0 [2] .bytes),
     rd .staticNull] := by decide
-- … through the map as well
example : footprint (.index [] [99]) exDocMap 1 =
    [wr (.threadLocal 1), rd (.docNode 0 []), rd (.docStorage 0 [] .hdr), rd (.docStorage 0 [] .map),
     rd (.docStorage 0 [0] .bytes), rd (.docStorage 0 [2] .bytes), rd .staticNull] := by decide
-- the trace of the schedule contains that read (the theorem is not about empty traces): 91 events
example : (⟨1, rd .staticNull⟩ : Event) ∈ roTrace exDoc (RoState.init exProgs) exSched ∧
    (⟨0, wr (.wbuf 0)⟩ : Event) ∈ roTrace exDoc (RoState.init exProgs) exSched ∧
    (roTrace exDoc (RoState.init exProgs) exSched).length = 91 := by decide
example : RaceFree (roTrace exDoc (RoState.init exProgs) exSched) := C17_readonly_drf _ _ _
-- why the invariant matters: with a NON-null fallback node (the state a misusing caller leaves behind, or the
-- code before the fix, which reset it unconditionally) a missing-key lookup writes shared state …
example : wr .staticNull ∈ footprintIn false (.index [] [99]) exDoc 1 := by decide
-- … and two concurrent lookups race
example : ¬ RaceFree ((footprintIn false (.index [] [99]) exDoc 1).map (Event.mk 1) ++
    (footprintIn false (.index [] [99]) exDoc 2).map (Event.mk 2)) := by decide

/-- independent workers: own document, pool and buffer each -/
def exWorkers : List Worker :=
  [⟨⟨0, 0, 0⟩, [.parse 7, .mutate, .indexMiss, .read, .destroy]⟩,
   ⟨⟨1, 1, 1⟩, [.parse 7, .mutate, .mutate, .indexMiss, .read, .destroy]⟩,
   ⟨⟨2, 2, 2⟩, [.parse 7, .read, .destroy]⟩]

example : ((exWorkers.map (·.res.doc)).Nodup ∧ (exWorkers.map (·.res.pool)).Nodup ∧
    (exWorkers.map (·.res.buf)).Nodup) ∧ ∀ w ∈ exWorkers, OwnOp.writeFallback ∉ w.prog := by decide
example : (ownTrace (OwnState.init exWorkers) [0, 1, 2, 0, 1, 2, 0, 1, 2, 1, 0, 0, 1, 1]).length = 57 := by decide
-- the misuse that `C17_independent_drf` excludes: writing through the fallback node races with a missing-key
-- lookup of another thread on an unrelated document
example : ¬ RaceFree (ownTrace (OwnState.init
    [⟨⟨0, 0, 0⟩, [.writeFallback]⟩, ⟨⟨1, 1, 1⟩, [.indexMiss]⟩]) [0, 1]) := by decide
-- sharing a pool between two workers is not covered either (without the lock discipline of `C17_locked_pool`)
example : ¬ RaceFree (ownTrace (OwnState.init
    [⟨⟨0, 0, 0⟩, [.mutate]⟩, ⟨⟨1, 0, 1⟩, [.mutate]⟩]) [0, 1]) := by decide

-- `SpinLock`: three threads, thread 0 gets in, thread 1 spins, thread 0 leaves, thread 1 gets in
example : ((SpinState.init 3).run [(0, false), (0, false), (1, false), (1, false), (1, false), (2, false)]).pcs =
    [.held, .spin, .xchg] := by decide
example : ((SpinState.init 3).run [(0, false), (0, false), (1, false), (1, false), (1, false), (0, true),
    (1, false), (1, false), (2, false), (2, false)]).pcs = [.idle, .held, .spin] := by decide

/-- locked pool, 3 threads, chunk capacity 64 -/
def exPool : CState :=
  CState.init .simple 64
    [[.malloc 13, .realloc 0 13 100], [.malloc 40, .malloc 100], [.malloc 8, .realloc 2 8 24]]

def roundRobin (n : Nat) : List Nat := (List.range n).flatMap (fun _ => [0, 1, 2])

def showBlocks (c : CState) : List (Nat × Nat × Nat × Nat × Nat) :=
  c.sh.blocks.map (fun b => (b.id, b.reg, b.off, b.req, b.asz))
def showChunks (c : CState) : Option (List (Nat × Nat × Nat)) :=
  (c.sh.pool? 0).map (fun p => p.chunks.map (fun c => (c.reg, c.cap, c.size)))

-- in the middle: thread 0 inside the guarded in-place attempt, thread 1 spinning, thread 2 about to `exchange`
example : (prun exPool (roundRobin 12)).flag = true ∧
    (prun exPool (roundRobin 12)).threads.map (·.phase) =
      [.crit (.grow 0 100), .acq (.malloc 100) true, .acq (.grow 2 24) false] := by decide +kernel
-- at the end: interleaved Malloc/Realloc of 3 threads, 6 blocks, 5 chunks (the empty first one + 4), two
-- moving reallocs (blocks 4 and 5 are the moved copies of blocks 0 and 2), all patterns intact
example : (prun exPool (roundRobin 40)).flag = false ∧ (prun exPool (roundRobin 40)).owner = [0, 1, 2, 1, 0, 2] ∧
    showBlocks (prun exPool (roundRobin 40)) =
      [(5, 4, 0, 24, 24), (4, 3, 0, 100, 104), (3, 2, 0, 100, 104), (2, 1, 56, 8, 8), (1, 1, 16, 40, 40),
       (0, 1, 0, 13, 16)] ∧
    showChunks (prun exPool (roundRobin 40)) =
      some [(4, 64, 24), (3, 104, 104), (2, 104, 104), (1, 64, 64), (0, 0, 0)] ∧
    memCheck (prun exPool (roundRobin 40)).sh = none ∧
    (prun exPool (roundRobin 40)).threads.map (·.phase) = [.idle, .idle, .idle] := by decide +kernel
example : (ptrace exPool (roundRobin 40)).length = 89 := by decide +kernel

/-- the window of `Realloc`: thread 0 `Malloc(40)`; thread 1 `Malloc(8)` (so block 0 is no longer the last
    allocation); thread 0 `Realloc(block 0, 40, 100)`: attempt fails, lock released – **window**; thread 1
    `Malloc(8)` inside the window; thread 0 fallback `Malloc(104)`, `memcpy`, fill -/
def exWindow : CState := CState.init .simple 64 [[.malloc 40, .realloc 0 40 100], [.malloc 8, .malloc 8]]

def schedBefore : List Nat := [0, 0, 0, 0, 0, 1, 1, 1, 1, 1, 0, 0, 0, 0]
def schedInside : List Nat := [1, 1, 1, 1, 1]
def schedAfter : List Nat := [0, 0, 0, 0, 0, 0]

-- thread 0 is in the window, nobody holds the lock
example : (prun exWindow schedBefore).threads.map (·.phase) = [.priv (.retry 0 100), .idle] ∧
    (prun exWindow schedBefore).flag = false := by decide +kernel
-- another thread allocates inside the window …
example : ((prun exWindow (schedBefore ++ schedInside)).sh.blocks.map (fun b => (b.id, b.reg, b.off, b.req))) =
    [(2, 1, 48, 8), (1, 1, 40, 8), (0, 1, 0, 40)] ∧
    (prun exWindow (schedBefore ++ schedInside)).threads.map (·.phase) = [.priv (.retry 0 100), .idle] := by
  decide +kernel
-- … and the fallback `Malloc` + `memcpy` + fill complete on the changed pool: new chunk, block 3 owned by
-- thread 0, every block intact
example : (prun exWindow (schedBefore ++ schedInside ++ schedAfter)).owner = [0, 1, 1, 0] ∧
    showBlocks (prun exWindow (schedBefore ++ schedInside ++ schedAfter)) =
      [(3, 2, 0, 100, 104), (2, 1, 48, 8, 8), (1, 1, 40, 8, 8), (0, 1, 0, 40, 40)] ∧
    showChunks (prun exWindow (schedBefore ++ schedInside ++ schedAfter)) =
      some [(2, 104, 104), (1, 64, 56), (0, 0, 0)] ∧
    memCheck (prun exWindow (schedBefore ++ schedInside ++ schedAfter)).sh = none := by decide +kernel

end examples

end Sonic.Props.C17
