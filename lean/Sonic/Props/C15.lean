import Sonic.Props.C05
import Sonic.Props.C09
import Sonic.Props.C14

/-!
# C15 — All supported x86 build configurations compute identical results

The static AVX2 build, the static SSE4.2 build and the dispatching build differ in exactly three ways:
the vector width `W` (32 / 16) of the string, quote and token scanners; the key-comparison kernels (AVX2 kernels
vs `std::memcmp`); and the `in_page`/tail variants selected under sanitizers.  Each of these is a parameter of
the models, and the property is the statement that the results do not depend on that parameter.  The theorems
below are corollaries of the "model = width-free spec" theorems of C05, C09 and C14 (for on-demand scanning and
for the full parser the corresponding corollaries are stated in `Props/C10.lean`, `Props/C11.lean` and
`Props/C01.lean` as those proofs land: `C01_width_irrelevant`, `C10_skipString_seq`).
Only the error code / offset inside a malformed string literal may differ (see the `decide`-checked example in
`Props/C05.lean`: `aaa…\q\x01"` gives code 4 at W = 32 and code 5 at W = 16).
-/

namespace Sonic.Props.C15
open Sonic.Model

/-- string literals: any two vector widths accept/reject alike and decode to the same bytes and end index -/
theorem C15_string_width_independent (W₁ W₂ : Nat) (h1 : 0 < W₁) (h1' : W₁ ≤ 63) (h2 : 0 < W₂) (h2' : W₂ ≤ 63)
    (pre bs pad : List Nat) (hbs : ∀ x ∈ bs, x < 256) (hpad : ∀ x ∈ pad, x < 256) (hlen : pad.length = 61) :
    (∃ n next b₁ b₂, StringDec.run W₁ (Sonic.Props.C05.padded pre bs pad) pre.length = .ok (.ok n next b₁) ∧
        StringDec.run W₂ (Sonic.Props.C05.padded pre bs pad) pre.length = .ok (.ok n next b₂) ∧
        (b₁.drop pre.length).take n = (b₂.drop pre.length).take n) ∨
    (∃ c₁ c₂, StringDec.run W₁ (Sonic.Props.C05.padded pre bs pad) pre.length = .ok (.err c₁) ∧
        StringDec.run W₂ (Sonic.Props.C05.padded pre bs pad) pre.length = .ok (.err c₂)) :=
  Sonic.Props.C05.C05_width_independent W₁ W₂ h1 h1' h2 h2' pre bs pad hbs hpad hlen

/-- quoting: for any two vector widths and either tail variant (production / sanitizer build), the emitted bytes
    are the same (both equal `Spec.quote s`) -/
theorem C15_quote_width_independent (W₁ W₂ : Nat) (h1 : 0 < W₁) (h1' : W₁ ≤ 32) (h2 : 0 < W₂) (h2' : W₂ ≤ 32)
    (san₁ san₂ : Bool) (addr : Nat) (mem : Quote.Mem) (s : List Nat) (cap : Nat)
    (junk₁ junk₂ fill₁ fill₂ : Nat → Nat)
    (hbytes : ∀ b ∈ s, b < 256)
    (hmem : ∀ i (h : i < s.length), mem (addr + i) = some s[i])
    (hpages : ∀ i, i < s.length → ∀ q, q / 4096 = (addr + i) / 4096 → (mem q).isSome = true)
    (hcap : 6 * s.length + 35 ≤ cap) :
    ∃ out e₁ e₂, Quote.run W₁ san₁ addr mem s.length cap junk₁ fill₁ = .ok (out, e₁) ∧
      Quote.run W₂ san₂ addr mem s.length cap junk₂ fill₂ = .ok (out, e₂) := by
  obtain ⟨e₁, h₁⟩ := Sonic.Props.C09.C09_quote W₁ h1 h1' san₁ addr mem s cap junk₁ fill₁ hbytes hmem hpages hcap
  obtain ⟨e₂, h₂⟩ := Sonic.Props.C09.C09_quote W₂ h2 h2' san₂ addr mem s cap junk₂ fill₂ hbytes hmem hpages hcap
  exact ⟨_, e₁, e₂, h₁, h₂⟩

/-- key comparison: the AVX2 kernels (either `in_page_32` variant) return what `memcmp` (the SSE build) returns -/
theorem C15_memcmp_avx2_eq_sse (mem : Memcmp.Mem) (a b s : Nat) (san : Bool)
    (hA : Sonic.Proofs.Memcmp.Mapped mem a s) (hB : Sonic.Proofs.Memcmp.Mapped mem b s) :
    Memcmp.InlinedMemcmp san mem a b s = Memcmp.memcmpRef mem a b s ∧
    ∃ r, Memcmp.memcmpRef mem a b s = .ok r ∧ Memcmp.InlinedMemcmpEq san mem a b s = .ok (decide (r = 0)) :=
  Sonic.Props.C14.C14_sse_agree mem a b s san hA hB

/-- … and the production and sanitizer variants of the AVX2 kernels agree with each other -/
theorem C15_memcmp_prod_eq_san (mem : Memcmp.Mem) (a b s : Nat)
    (hA : Sonic.Proofs.Memcmp.Mapped mem a s) (hB : Sonic.Proofs.Memcmp.Mapped mem b s) :
    Memcmp.InlinedMemcmpEq true mem a b s = Memcmp.InlinedMemcmpEq false mem a b s ∧
    Memcmp.InlinedMemcmp true mem a b s = Memcmp.InlinedMemcmp false mem a b s :=
  Sonic.Props.C14.C14_san_agree mem a b s hA hB

end Sonic.Props.C15
