import Sonic.Props.C05
import Sonic.Props.C09
import Sonic.Props.C14
import Sonic.Props.C01
import Sonic.Props.C06
import Sonic.Props.C10
import Sonic.Props.C20

/-!
# C15 — All supported x86 build configurations compute identical results

The static AVX2 build, the static SSE4.2 build and the dispatching build differ in exactly three ways:
the vector width `W` (32 / 16) of the string, quote and token scanners; the key-comparison kernels (AVX2 kernels
vs `std::memcmp`); and the `in_page`/tail variants selected under sanitizers.  Each of these is a parameter of
the models, and the property is the statement that the results do not depend on that parameter.  The theorems
below are corollaries of the "model = width-free spec" theorems of C05, C09 and C14 (for on-demand scanning and
for the full parser the corresponding corollaries are stated in `Props/C10.lean`, `Props/C11.lean` and
`Props/C01.lean` as those proofs land: `C01_width_irrelevant`, `C10_skipString_seq`).
Only the error code / offset inside a malformed string literal may differ (see the `decide`-checked example in
`Props/C05.lean`: `aaa…\q\x01"` gives code 4 at W = 32 and code 5 at W = 16).
-/

namespace Sonic.Props.C15
open Sonic.Model

/-- string literals: any two vector widths accept/reject alike and decode to the same bytes and end index -/
theorem C15_string_width_independent (W₁ W₂ : Nat) (h1 : 0 < W₁) (h1' : W₁ ≤ 63) (h2 : 0 < W₂) (h2' : W₂ ≤ 63)
    (pre bs pad : List Nat) (hbs : ∀ x ∈ bs, x < 256) (hpad : ∀ x ∈ pad, x < 256) (hlen : pad.length = 61) :
    (∃ n next b₁ b₂, StringDec.run W₁ (Sonic.Props.C05.padded pre bs pad) pre.length = .ok (.ok n next b₁) ∧
        StringDec.run W₂ (Sonic.Props.C05.padded pre bs pad) pre.length = .ok (.ok n next b₂) ∧
        (b₁.drop pre.length).take n = (b₂.drop pre.length).take n) ∨
    (∃ c₁ c₂, StringDec.run W₁ (Sonic.Props.C05.padded pre bs pad) pre.length = .ok (.err c₁) ∧
        StringDec.run W₂ (Sonic.Props.C05.padded pre bs pad) pre.length = .ok (.err c₂)) :=
  Sonic.Props.C05.C05_width_independent W₁ W₂ h1 h1' h2 h2' pre bs pad hbs hpad hlen

/-- quoting: for any two vector widths and either tail variant (production / sanitizer build), the emitted bytes
    are the same (both equal `Spec.quote s`) -/
theorem C15_quote_width_independent (W₁ W₂ : Nat) (h1 : 0 < W₁) (h1' : W₁ ≤ 32) (h2 : 0 < W₂) (h2' : W₂ ≤ 32)
    (san₁ san₂ : Bool) (addr : Nat) (mem : Quote.Mem) (s : List Nat) (cap : Nat)
    (junk₁ junk₂ fill₁ fill₂ : Nat → Nat)
    (hbytes : ∀ b ∈ s, b < 256)
    (hmem : ∀ i (h : i < s.length), mem (addr + i) = some s[i])
    (hpages : ∀ i, i < s.length → ∀ q, q / 4096 = (addr + i) / 4096 → (mem q).isSome = true)
    (hcap : 6 * s.length + 35 ≤ cap) :
    ∃ out e₁ e₂, Quote.run W₁ san₁ addr mem s.length cap junk₁ fill₁ = .ok (out, e₁) ∧
      Quote.run W₂ san₂ addr mem s.length cap junk₂ fill₂ = .ok (out, e₂) := by
  obtain ⟨e₁, h₁⟩ := Sonic.Props.C09.C09_quote W₁ h1 h1' san₁ addr mem s cap junk₁ fill₁ hbytes hmem hpages hcap
  obtain ⟨e₂, h₂⟩ := Sonic.Props.C09.C09_quote W₂ h2 h2' san₂ addr mem s cap junk₂ fill₂ hbytes hmem hpages hcap
  exact ⟨_, e₁, e₂, h₁, h₂⟩

/-- key comparison: the AVX2 kernels (either `in_page_32` variant) return what `memcmp` (the SSE build) returns -/
theorem C15_memcmp_avx2_eq_sse (mem : Memcmp.Mem) (a b s : Nat) (san : Bool)
    (hA : Sonic.Proofs.Memcmp.Mapped mem a s) (hB : Sonic.Proofs.Memcmp.Mapped mem b s) :
    Memcmp.InlinedMemcmp san mem a b s = Memcmp.memcmpRef mem a b s ∧
    ∃ r, Memcmp.memcmpRef mem a b s = .ok r ∧ Memcmp.InlinedMemcmpEq san mem a b s = .ok (decide (r = 0)) :=
  Sonic.Props.C14.C14_sse_agree mem a b s san hA hB

/-- … and the production and sanitizer variants of the AVX2 kernels agree with each other -/
theorem C15_memcmp_prod_eq_san (mem : Memcmp.Mem) (a b s : Nat)
    (hA : Sonic.Proofs.Memcmp.Mapped mem a s) (hB : Sonic.Proofs.Memcmp.Mapped mem b s) :
    Memcmp.InlinedMemcmpEq true mem a b s = Memcmp.InlinedMemcmpEq false mem a b s ∧
    Memcmp.InlinedMemcmp true mem a b s = Memcmp.InlinedMemcmp false mem a b s :=
  Sonic.Props.C14.C14_san_agree mem a b s hA hB

/-- **The full parser computes the same result in every build configuration** (vector width 16 = SSE kernels, 32 = AVX2 kernels;
    runtime dispatch selects one of the two): accept/reject, the value, the success offset and the tree are identical, and so are the
    error code and offset - except inside a malformed string literal, where each width still reports a string-failure code at an
    offset inside that literal (the exception the property itself allows; `C01_width_differs` shows it is real).  Any padding bytes,
    any stale node stack, any previous document.  Corollary of `C01_width_irrelevant`. -/
theorem C15_parse_width_independent (pad₁ pad₂ bs : List Nat)
    (raw₁ raw₂ : List (Option Sonic.Model.Parse.Node)) (d₁ d₂ : Sonic.Model.Parse.Doc)
    (hbs : ∀ x ∈ bs, x < 256) (hpad₁ : ∀ x ∈ pad₁, x < 256) (hlen₁ : pad₁.length = 61)
    (hpad₂ : ∀ x ∈ pad₂, x < 256) (hlen₂ : pad₂.length = 61)
    (hraw₁ : raw₁.length = Sonic.Model.Parse.setUpCap bs.length) (hraw₂ : raw₂.length = Sonic.Model.Parse.setUpCap bs.length)
    (hL : bs.length + 4 < 2 ^ 32) :
    ∃ r₁ r₂, Sonic.Model.Parse.parseDoc 16 pad₁ raw₁ d₁ bs = .ok r₁ ∧ Sonic.Model.Parse.parseDoc 32 pad₂ raw₂ d₂ bs = .ok r₂ ∧
      Sonic.Props.C01.observe r₁ = Sonic.Props.C01.observe r₂ ∧ r₁.doc.root = r₂.doc.root ∧
      ((r₁.err = r₂.err ∧ r₁.off = r₂.off) ∨
       (∃ q, Sonic.Props.C01.MalformedLiteralAt bs q ∧ q < r₁.off ∧ r₁.off ≤ bs.length ∧ q < r₂.off ∧ r₂.off ≤ bs.length ∧
          Sonic.Props.C01.StringFailureCode r₁.err ∧ Sonic.Props.C01.StringFailureCode r₂.err)) := by
  obtain ⟨r₁, r₂, h1, h2, h3, h4, h5⟩ := Sonic.Props.C01.C01_width_irrelevant 16 32 (by decide) (by decide) (by decide) (by decide)
    pad₁ pad₂ bs raw₁ raw₂ d₁ d₂ hbs hpad₁ hlen₁ hpad₂ hlen₂ hraw₁ hraw₂ hL
  refine ⟨r₁, r₂, h1, h2, h3, h4, ?_⟩
  rcases h5 with h | ⟨_, q, hq⟩
  · exact Or.inl h
  · exact Or.inr ⟨q, hq⟩

/-- **Serialisation produces identical bytes in every configuration**: any two configurations (vector width of `Quote`, sanitizer tail,
    strict write limit) that print doubles with the same `F64toa` give byte-identical buffers for every finite well-formed document
    and any write-buffer histories - both equal the width-free reference printer.  Corollary of `C06_serialize_eq_render`. -/
theorem C15_serialize_config_independent (cfg₁ cfg₂ : Sonic.Model.Serialize.Cfg)
    (h1 : Sonic.Proofs.Serialize.CfgOK cfg₁) (h2 : Sonic.Proofs.Serialize.CfgOK cfg₂) (hf : cfg₁.ftoa = cfg₂.ftoa)
    (v : Sonic.Spec.JVal) (hwf : Sonic.Spec.Render.WF v = true) (hfin : Sonic.Spec.Render.AllFinite v = true)
    (n₁ n₂ : Nat) (wb₁ wb₂ : Sonic.Model.Stack.Stk)
    (i1 : Sonic.Model.Stack.StackInv wb₁) (i2 : Sonic.Model.Stack.StackInv wb₂) :
    ∃ a sa b sb, Sonic.Model.Serialize.serializeN cfg₁ v n₁ wb₁ = .done Sonic.Gen.kErrorNone a sa ∧
      Sonic.Model.Serialize.serializeN cfg₂ v n₂ wb₂ = .done Sonic.Gen.kErrorNone b sb ∧ a.buf = b.buf := by
  obtain ⟨a, sa, e1, r1, _⟩ := Sonic.Props.C06.C06_serialize_eq_render cfg₁ h1 v hwf hfin n₁ wb₁ i1
  obtain ⟨b, sb, e2, r2, _⟩ := Sonic.Props.C06.C06_serialize_eq_render cfg₂ h2 v hwf hfin n₂ wb₂ i2
  refine ⟨a, sa, b, sb, e1, e2, ?_⟩
  rw [hf] at r1
  rw [r1] at r2
  exact (Option.some.inj r2)

/-- **On-demand lookup gives the same answer for both widths** on every valid JSON text and every path: either both succeed with
    slices that the reference parser reads as the same value `u` (the value the path resolves to), or both fail with a lookup error
    and an empty target.  Corollary of `C10_agree`. -/
theorem C15_ondemand_width_independent (data : List Nat) (hd : ∀ x ∈ data, x < 256) (hlen : data.length < 2 ^ 64)
    (junk₁ junk₂ : Nat → Nat → Nat) (hj₁ : ∀ s i, junk₁ s i < 256) (hj₂ : ∀ s i, junk₂ s i < 256)
    (path : List Sonic.Spec.Pointer.Step) (v : Sonic.Spec.JVal) (hv : Sonic.Spec.Json.parse data = .ok v) :
    (∀ u, Sonic.Spec.Pointer.at v path = some u →
      ∃ s₁ t₁ e₁ s₂ t₂ e₂, Sonic.Model.OnDemand.getOnDemand 16 data junk₁ path = .ok (.ok s₁ t₁ t₁) ∧
        Sonic.Model.OnDemand.getOnDemand 32 data junk₂ path = .ok (.ok s₂ t₂ t₂) ∧
        Sonic.Spec.Json.parseAt data s₁ = .ok (u, e₁) ∧ Sonic.Spec.Json.parseAt data s₂ = .ok (u, e₂)) ∧
    (Sonic.Spec.Pointer.at v path = none →
      ∃ c₁ o₁ c₂ o₂, Sonic.Model.OnDemand.getOnDemand 16 data junk₁ path = .ok (.err c₁ o₁ 0) ∧
        Sonic.Model.OnDemand.getOnDemand 32 data junk₂ path = .ok (.err c₂ o₂ 0)) := by
  have a := Sonic.Props.C10.C10_agree 16 (by decide) (by decide) data hd hlen junk₁ hj₁ path v hv
  have b := Sonic.Props.C10.C10_agree 32 (by decide) (by decide) data hd hlen junk₂ hj₂ path v hv
  refine ⟨fun u hu => ?_, fun hn => ?_⟩
  · obtain ⟨s₁, t₁, e₁, g1, p1, _⟩ := a.1 u hu
    obtain ⟨s₂, t₂, e₂, g2, p2, _⟩ := b.1 u hu
    exact ⟨s₁, t₁, e₁, s₂, t₂, e₂, g1, g2, p1, p2⟩
  · obtain ⟨c₁, o₁, g1, _⟩ := a.2 hn
    obtain ⟨c₂, o₂, g2, _⟩ := b.2 hn
    exact ⟨c₁, o₁, c₂, o₂, g1, g2⟩

/-- **UpdateLazy gives the same merged value for both widths** (and any stale key-buffer content): both outputs parse to
    `Spec.Merge.update t s`.  Corollary of `C20_model_eq_spec`. -/
theorem C15_lazy_width_independent (junk₁ junk₂ : Nat → Nat → Nat) (hj₁ : ∀ s i, junk₁ s i < 256) (hj₂ : ∀ s i, junk₂ s i < 256)
    (tt st : List Nat) (hbt : ∀ x ∈ tt, x < 256) (hbs : ∀ x ∈ st, x < 256) (t s : Sonic.Spec.JVal)
    (ht : Sonic.Spec.Json.parse tt = .ok t) (hs : Sonic.Spec.Json.parse st = .ok s) :
    ∃ o₁ o₂, Sonic.Model.Lazy.updateLazy 16 junk₁ tt st = .ok o₁ ∧ Sonic.Model.Lazy.updateLazy 32 junk₂ tt st = .ok o₂ ∧
      Sonic.Spec.Json.parse o₁ = Sonic.Spec.Json.parse o₂ := by
  obtain ⟨o₁, a1, a2⟩ := Sonic.Props.C20.C20_model_eq_spec 16 (by decide) (by decide) junk₁ hj₁ tt st hbt hbs t s ht hs
  obtain ⟨o₂, b1, b2⟩ := Sonic.Props.C20.C20_model_eq_spec 32 (by decide) (by decide) junk₂ hj₂ tt st hbt hbs t s ht hs
  exact ⟨o₁, o₂, a1, b1, by rw [a2, b2]⟩

end Sonic.Props.C15
