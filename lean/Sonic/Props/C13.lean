import Sonic.Proofs.LedgerSession
import Sonic.Proofs.LedgerSim
import Sonic.Props.C12
import Sonic.Proofs.DocBuf

/-!
# C13 — Every allocation is released exactly once and copies are independent

> Across any history of building, mutating, copying, moving, swapping, reparsing (successfully or not) and destroying
> nodes and documents with an allocator that really frees, every block obtained from the allocator is returned to it
> exactly once, never used afterwards, and nothing is left allocated when the last owner is destroyed.  A deep copy
> shares no owned memory with its source: changing or destroying either leaves the other intact.

Model: `Sonic.Model.Ledger` = `Sonic.Model.Dom` (the model tested against the compiled code) with a block id on every
owning payload — container storage, owned (`kStringFree`) strings, the lookup map (one id for the `map_type` object and
its nodes), the document's parse buffer `str_` — a non-owning reference on every `kStringCopy` string to the parse
buffer it points into, and a ledger (`next` fresh id, `live` ids, `faults` = number of `Free` calls on an id that is
not live).  Each command reports the ids it obtains (always fresh: `Realloc` = new block + old block freed) and the
ids it frees (the blocks of every subtree it `destroy()`s); see the header of `Model/Ledger.lean`.
`lstep` rejects (`none`, state unchanged) what `Model.Dom.step` rejects (`bad-op`), plus `dom-reset pool` (the pool
allocator never frees: out of scope of C13) and — the documented lifetime precondition of dom.md — a cross-document
`dom-move` / `dom-swap` of a subtree that contains a string created by `dom-parse` (`C13_foreign_ref_note`).
`ParseSchema` is not part of this model (known finding F13 is handled by the schema property).

`LedgerInv s` (`Sonic.Proofs.Ledger`): the block ids reachable from the four documents (roots and `str_`), counted
with multiplicity, are exactly the live ids; the live ids are pairwise distinct and below `next`; `faults = 0`; every
parse-buffer view of a document points into that document's own (live) `str_`.
-/

namespace Sonic.Props.C13
open Sonic.Spec Sonic.Model.Dom Sonic.Model.Ledger Sonic.Proofs.Ledger
open Sonic.Spec.Containers (Key Step Path PStep Val NodeOp Res Op Out AllocKind State)

/-- what `LedgerInv` says, spelled out -/
theorem LedgerInv_unfold {s : LSession} (h : LedgerInv s) :
    -- no `Free` of a foreign or already freed block ever happened
    s.ledger.faults = 0 ∧
    -- the reachable blocks are exactly the live ones (nothing leaked, nothing reachable was freed) …
    (docsBlocks s.docs).Perm s.ledger.live ∧
    -- … and no block has two owners
    (docsBlocks s.docs).Nodup ∧
    -- every `kStringCopy` string points into the live parse buffer of its own document
    (∀ doc ∈ s.docs, ∀ r ∈ doc.root.refs, doc.str = some r ∧ r ∈ s.ledger.live) := by
  have hperm : (docsBlocks s.docs).Perm s.ledger.live := List.perm_iff_count.2 h.ok.bal
  refine ⟨h.ok.faults, hperm, (hperm.nodup_iff).2 h.ok.nodup, fun doc hdoc r hr => ?_⟩
  have hstr := h.refs doc hdoc r hr
  refine ⟨hstr, hperm.mem_iff.1 ?_⟩
  rw [docsBlocks_eq]
  exact List.mem_flatMap.2 ⟨doc, hdoc, by simp [LDoc.blocks, hstr]⟩

/-- **One command.**  From a state satisfying `LedgerInv`, every accepted command leads to a state satisfying it:
    in particular the command freed only blocks that were live (no foreign free, no double free), every block still
    reachable afterwards — by any later command — is live (no use after free), and no block has two owners. -/
theorem C13_step (env : Containers.Env) (s s' : LSession) (op : Op) (hinv : LedgerInv s)
    (h : lstep env s op = some s') : LedgerInv s' :=
  step_inv env hinv h

/-- **Every history.**  For every finite command sequence from the initial session (commands outside the
    preconditions are rejected and skipped, as `bad-op` is in the harness): the reached state satisfies `LedgerInv` —
    no foreign free, no double free, the blocks reachable from the live owners are pairwise distinct and are exactly
    the live set, every parse-buffer view points to a live buffer. -/
theorem C13_ledger (env : Containers.Env) (ops : List Op) :
    LedgerInv (lrun env LSession.init ops) ∧
    (lrun env LSession.init ops).ledger.faults = 0 ∧
    (docsBlocks (lrun env LSession.init ops).docs).Perm (lrun env LSession.init ops).ledger.live ∧
    (docsBlocks (lrun env LSession.init ops).docs).Nodup ∧
    (∀ doc ∈ (lrun env LSession.init ops).docs, ∀ r ∈ doc.root.refs,
      doc.str = some r ∧ r ∈ (lrun env LSession.init ops).ledger.live) :=
  have h := run_inv env ops LSession.init init_inv
  ⟨h, LedgerInv_unfold h⟩

/-- **Balanced.**  When the last owner is destroyed nothing is left allocated: after `dom-end` (and likewise after
    the implicit destruction done by `dom-reset`) the live set is empty, with no fault recorded. -/
theorem C13_balanced (env : Containers.Env) (ops : List Op) :
    (lrun env LSession.init (ops ++ [.fin])).ledger.live = [] ∧
    (lrun env LSession.init (ops ++ [.fin])).ledger.faults = 0 ∧
    (∀ a s', a ≠ AllocKind.pool → lstep env (lrun env LSession.init ops) (.reset a) = some s' →
      s'.ledger.live = [] ∧ s'.ledger.faults = 0) := by
  have hinv := run_inv env (ops ++ [.fin]) LSession.init init_inv
  refine ⟨?_, hinv.ok.faults, fun a s' _ hst => ?_⟩
  · apply live_nil_of_no_blocks hinv
    rw [lrun_append]
    have hc := run_closed env ops LSession.init (fun _ => rfl)
    simp only [lrun]
    cases hst : lstep env (lrun env LSession.init ops) .fin with
    | some s' =>
      simp only [lstep] at hst
      split at hst
      · simp only [lstepLive, Option.some.injEq] at hst
        subst hst
        exact fresh_blocks
      · simp at hst
    | none =>
      simp only [lstep] at hst
      split at hst
      · simp [lstepLive] at hst
      · rename_i hl
        have : (lrun env LSession.init ops).live = false := by simpa using hl
        rw [hc this]
        exact fresh_blocks
  · have hinv' := step_inv env (run_inv env ops LSession.init init_inv) hst
    simp only [lstep] at hst
    split at hst
    · simp at hst
    · simp only [Option.some.injEq] at hst
      subst hst
      exact ⟨live_nil_of_no_blocks hinv' fresh_blocks, hinv'.ok.faults⟩

/-- **Copies are independent.**
    (1) a deep copy (`CopyFrom`, either `copyString` flag) consists of fresh blocks only — the consecutive ids
        `n … n'-1` — and holds no view into any parse buffer (`kStringCopy` strings are re-allocated); erasing the ids
        gives `Model.Dom.copyOf`, whose abstraction equals the source's (`copyOf_props`, used by C12 and C18);
    (2) hence, in a session satisfying `LedgerInv`, none of the copy's blocks is live before the command — they are
        disjoint from the source's blocks and from everything else — and after the command all reachable blocks are
        still pairwise distinct: source and copy share no owned memory;
    (3) writing at (or destroying) a node does not change what is read at a node that is neither above nor below it:
        with (2) (no block has two owners, so the tree model has no hidden sharing) changing or destroying either of
        source and copy leaves the other intact; on abstract values this is `Sonic.Props.C12.C12_refine`: every later
        command acts on `abs` as the pure value operation of `Spec.Containers`. -/
theorem C13_copy_independent :
    (∀ (cs : Bool) (x : LNode) (n : Nat),
      Fresh (lcopy cs x n).1.blocks n (lcopy cs x n).2 ∧ (lcopy cs x n).1.refs = [] ∧
      (lcopy cs x n).1.erase = copyOf cs x.erase ∧ ((lcopy cs x n).1.erase).abs = x.erase.abs) ∧
    (∀ (env : Containers.Env) (s s' : LSession) (d d2 : Nat) (p p2 : Path) (cs : Bool), LedgerInv s →
      lstep env s (.copy d p d2 p2 cs) = some s' →
      LedgerInv s' ∧ (docsBlocks s'.docs).Nodup ∧
      ∀ x, ∀ id ∈ (lcopy cs x s.ledger.next).1.blocks, id ∉ s.ledger.live ∧ id ∉ docsBlocks s.docs) ∧
    (∀ (a b : Path) (doc y d1 : LNode), a.isPrefixOf b = false → b.isPrefixOf a = false →
      doc.set a y = some d1 → d1.get b = doc.get b) := by
  refine ⟨fun cs x n => ?_, fun env s s' d d2 p p2 cs hinv hst => ?_, fun a b doc y d1 h1 h2 hs =>
    get_set_disjoint h1 h2 hs⟩
  · obtain ⟨h1, h2⟩ := lcopy_fresh cs x n
    refine ⟨h1, h2, erase_lcopy cs x n, ?_⟩
    rw [erase_lcopy]
    exact (Sonic.Proofs.Dom.copyOf_props cs x.erase).2.2
  · have hinv' := step_inv env hinv hst
    obtain ⟨_, hperm, hnd, _⟩ := LedgerInv_unfold hinv'
    refine ⟨hinv', hnd, fun x id hid => ?_⟩
    obtain ⟨⟨hle, hf⟩, _⟩ := lcopy_fresh cs x s.ledger.next
    have hpos : 0 < List.count id (lcopy cs x s.ledger.next).1.blocks := List.count_pos_iff.2 hid
    rw [hf id] at hpos
    have hge := (List.mem_range'_1.1 (List.count_pos_iff.1 hpos)).1
    have hnl : id ∉ s.ledger.live := fun hl => by have := hinv.ok.lt id hl; omega
    refine ⟨hnl, fun hb => hnl ?_⟩
    exact (List.perm_iff_count.2 hinv.ok.bal).mem_iff.1 hb

/-- **The ledger model is the tested DOM model.**  Forgetting the ids, an accepted command is the command of
    `Sonic.Model.Dom` (the model compared line by line with the compiled code, refined to `Spec.Containers` by C12),
    and so are whole runs as long as the two interpreters reject the same commands (`Agree`: no `dom-reset pool`, no
    cross-document move / swap of a subtree holding a parse-buffer view). -/
theorem C13_erase (env : Containers.Env) :
    (∀ (s s' : LSession) (op : Op), lstep env s op = some s' → (step env s.erase op).map (·.1) = some s'.erase) ∧
    (∀ (ops : List Op) (s : LSession), Agree env s ops → (lrun env s ops).erase = (run env s.erase ops).1) ∧
    LSession.init.erase = Session.init :=
  ⟨fun _ _ _ h => step_erase env h, fun ops s h => run_erase env ops s h, rfl⟩

/-- **… and it rejects nothing else.**  Under the lifetime precondition (`LifetimePre`: the command is not
    `dom-reset pool`, and a cross-document `dom-move` / `dom-swap` does not move a subtree holding a view into a parse
    buffer) the ledger interpreter accepts exactly the commands `Model.Dom` accepts, with the same erased result. -/
theorem C13_complete (env : Containers.Env) (s : LSession) (op : Op) (hpre : LifetimePre s op) :
    (lstep env s op).map LSession.erase = (step env s.erase op).map (·.1) :=
  step_erase_eq env s op hpre

/-! ## the lifetime precondition on cross-document moves -/

/-- a stub reader for the examples: text `[1]` is `["abcd"]`, anything else is `[]` -/
def env1 : Containers.Env where
  parse := fun bs => if bs = [1] then some (.arr [.str [97, 98, 99, 100]]) else some (.arr [])
  dump := fun _ _ _ => ""

/-- `dom-move 1 / 0 /i0` WITHOUT the lifetime check: what the C++ does -/
def uncheckedMove (s : LSession) : Option LSession :=
  (s.docs[1]?).bind fun D => (s.docs[0]?).bind fun S => (lmoveNode2 D.root [] S.root [.idx 0]).map fun r =>
    { s with docs := (s.docs.set 1 { D with root := r.1 }).set 0 { S with root := r.2.1 },
             ledger := s.ledger.commit s.ledger.next r.2.2 }

def parsed : LSession := lrun env1 LSession.init [.reset .simple, .parse 0 [1]]

/-- the state after the unchecked move followed by a re-parse of document 0 -/
def dangling : Option LSession := (uncheckedMove parsed).bind fun s => lstep env1 s (.parse 0 [2])

/-- **Why cross-document moves of parsed strings are excluded.**  `dom-parse 0 ["abcd"]`, then moving the string into
    document 1 and re-parsing document 0: the string in document 1 still points into block 0 (the first parse buffer),
    which has been freed — the heap-use-after-free AddressSanitizer reports for this history on the compiled code.  The
    ledger interpreter rejects that move (and accepts it for a string built with `SetString`, which owns its bytes);
    a `CopyFrom` across documents is always accepted and re-allocates the string. -/
theorem C13_foreign_ref_note :
    lstep env1 parsed (.move 1 [] 0 [.idx 0]) = none ∧
    (dangling.map fun s => ((s.docs.map fun d => d.root.refs), s.ledger.live)) = some ([[], [0], [], []], [2]) ∧
    (lstep env1 parsed (.copy 1 [] 0 [.idx 0] false)).isSome = true ∧
    (lstep env1 (lrun env1 LSession.init [.reset .simple, .node 0 [] (.set .arr), .node 0 [] (.push (.str [97]))])
      (.move 1 [] 0 [.idx 0])).isSome = true := by
  refine ⟨by decide, by decide, by decide, by decide⟩

/-! ## non-vacuity -/

/-- a history touching every kind of block: owned strings, key strings, storage growth (realloc), a map, a deep copy
    with string copy, RemoveMember with a map, parse (success and failure), node move inside a document, document
    move, swap across documents, and finally `dom-end` -/
def history : List Op := [
  .reset .track,
  .node 0 [] (.set .obj),
  .node 0 [] (.add [97] (.str [1, 2]) true),
  .node 0 [] (.add [98] .arr false),
  .node 0 [.mem 1] (.push (.str [3])),
  .node 0 [] .createMap,
  .copy 1 [] 0 [] true,
  .node 0 [] (.remove [97]),
  .parse 2 [1],
  .move 2 [] 2 [.idx 0],
  .docMove 3 2,
  .parse 3 [9],
  .swap 0 [] 1 [],
  .node 1 [] (.mreserve 40),
  .node 1 [] .clear]

/-- seven blocks are live at the end of `history`, no fault occurred; the ids themselves are not evaluated here (the
    kernel re-evaluates the chain of `next` values without sharing; `C13_ledger` gives the exact statement) -/
example : (lrun env1 LSession.init history).ledger.live.length = 7 ∧
    (docsBlocks (lrun env1 LSession.init history).docs).length = 7 ∧
    (lrun env1 LSession.init history).ledger.faults = 0 := by decide +kernel
/-- … and `dom-end` releases them all -/
example : (lrun env1 LSession.init (history ++ [.fin])).ledger.live = [] ∧
    (lrun env1 LSession.init (history ++ [.fin])).ledger.faults = 0 := by decide +kernel
/-- a short history with its exact ledger: storage (0), key string (1), owned string (2), then the value is replaced -/
example : ((lrun env1 LSession.init [.reset .simple, .node 0 [] (.set .obj),
      .node 0 [] (.add [97] (.str [1, 2]) true)]).ledger.live,
    (lrun env1 LSession.init [.reset .simple, .node 0 [] (.set .obj), .node 0 [] (.add [97] (.str [1, 2]) true),
      .node 0 [.mem 0] (.set (.str [5]))]).ledger.live) = ([0, 1, 2], [1, 2, 3]) := by decide +kernel
/-- both interpreters accept every command of `history`: `agreeB` is the executable form of `Agree`
    (`agree_of_agreeB`), so `C13_erase` applies to this run -/
example : agreeB env1 LSession.init history = true := by decide +kernel

end Sonic.Props.C13

namespace Sonic.Props.C13
open Sonic.Model.DocBuf

/-! ## the documents' text buffers: `str_` and the chain of `schema_str_` buffers (`Sonic.Model.DocBuf`)

`ParseSchema` is outside the node ledger above; what it adds to a document's ownership is the chain of schema buffers
(repair of F13).  For EVERY history of `Parse` / `ParseSchema` / `Swap` / move assignment / destruction over two documents: -/

/-- no double or foreign free ever; every live block is pointed to by exactly one of the two documents (as `str_` or as one
    link of a schema chain) and vice versa; block ids are never reused while live -/
theorem C13_docbuf_inv (ops : List Op) :
    (run ops).faults = 0 ∧ (run ops).owned.Nodup ∧ (∀ x, x ∈ (run ops).live ↔ x ∈ (run ops).owned) ∧
    (run ops).live.Nodup := by
  have h := run_inv ops
  exact ⟨h.faults, h.ownedNodup, h.liveIff, h.liveNodup⟩

/-- balanced: after both documents are destroyed nothing is live (no buffer of any earlier `ParseSchema` call is leaked — the
    defect F13 — and none was freed twice) -/
theorem C13_docbuf_no_leak (ops : List Op) :
    (run (ops ++ [.destroy .a, .destroy .b])).live = [] ∧ (run (ops ++ [.destroy .a, .destroy .b])).faults = 0 :=
  run_no_leak ops

/-- `ParseSchema` releases nothing, and the buffers of all `ParseSchema` calls on a document since its last `Parse` are live
    and distinct in every reachable state: string nodes written by an earlier call never dangle while the document lives -/
theorem C13_docbuf_schema_keeps (ops : List Op) (w : Who) :
    (step (run ops) (.schema w)).live = (run ops).next :: (run ops).live ∧
    ((run ops).get w).chain.Nodup ∧ ∀ x ∈ ((run ops).get w).chain, x ∈ (run ops).live :=
  ⟨(schema_keeps _ w).1, chain_live ops w⟩

/-- non-vacuity: two ParseSchema calls after a Parse hold three blocks; a swap and a move assignment later the receiver's
    old buffers are gone and the donor's chain survives; destruction releases everything -/
example : (run [.parse .a, .schema .a, .schema .a]).live = [2, 1, 0] ∧
    (run [.parse .a, .schema .a, .schema .a, .parse .b, .swap, .massign .a]).live = [2, 1, 0] ∧
    (run [.parse .a, .schema .a, .schema .a, .parse .b, .swap, .massign .b]).live = [3] ∧
    (run [.parse .a, .schema .a, .schema .a, .parse .a]).live = [3] := by decide

end Sonic.Props.C13
