import Sonic.Proofs.DomEq
import Sonic.Props.C06

/-!
# C18 — Document equality is JSON value equality

> For documents without duplicate keys, == is reflexive, symmetric and transitive and holds exactly when the two
> values are equal as JSON values with number kinds distinguished: arrays equal element-wise in order, objects equal
> as key-to-value maps regardless of member order, strings by bytes, numbers by kind and bit-exact value, and it is
> independent of allocator type, string ownership kind, capacity and the presence of a lookup map.  A deep copy and
> a parse of the serialised text are each equal to the original.

* `Node.eqv` (`Sonic.Model.Dom`) is the literal transcription of `DNode::operator==` (`dynamicnode.h`): basic-type
  test; objects: size test, then for every member of the LEFT operand `FindMember` in the RIGHT operand — through the
  right operand's lookup MAP when it has one — and `!=` of the two values; arrays pairwise; strings by view; numbers
  by sub-type then payload.  It is what `dom-eq` of `/verif/protocol/dom.md` prints.
* `Spec.Equal.eqv` is the statement's equality on `JVal`; `Spec.Equal.noDupKeys v`: no object in `v` has two
  members with the same key.
* `Good a` = `DomInv` of the tree `a` (`len ≤ cap`, map entries exactly `(key_i, i)`, sorted), `AscAll` = equal keys
  are listed in vector order in every map (implied by `Good` + distinct keys); `Node.abs` forgets capacity, map and
  string ownership.  The allocator type does not occur in a `Node` at all.
-/

namespace Sonic.Props.C18
open Sonic.Spec Sonic.Model.Dom Sonic.Proofs.Dom Sonic.Proofs.DomEq
open Sonic.Spec.Containers (Key)

/-- `==` on the model is the spec equality of the abstractions (both operands satisfy the representation invariant
    and contain no duplicate keys). -/
theorem C18_eq (a b : Node) (_ha : Good a) (hb : Good b) (_hda : Equal.noDupKeys a.abs = true)
    (hdb : Equal.noDupKeys b.abs = true) : a.eqv b = Equal.eqv a.abs b.abs :=
  eqv_model_spec a b hb (asc_of_noDup b hb hdb)

/-- sharper: nothing is needed of the LEFT operand (its members are iterated, never looked up), and of the right one
    only that its maps list equal keys in vector order — duplicates allowed, `FindMember` = first match on both
    sides. -/
theorem C18_eq_ordered (a b : Node) (hb : Good b) (hob : AscAll b) : a.eqv b = Equal.eqv a.abs b.abs :=
  eqv_model_spec a b hb hob

/-- `Spec.Equal.eqv` is reflexive, symmetric and transitive on values without duplicate keys, hence so is `==`. -/
theorem C18_equiv :
    (∀ v, Equal.noDupKeys v = true → Equal.eqv v v = true) ∧
    (∀ v w, Equal.noDupKeys v = true → Equal.noDupKeys w = true → Equal.eqv v w = true → Equal.eqv w v = true) ∧
    (∀ u v w, Equal.eqv u v = true → Equal.eqv v w = true → Equal.eqv u w = true) ∧
    (∀ a : Node, Good a → Equal.noDupKeys a.abs = true → a.eqv a = true) ∧
    (∀ a b : Node, Good a → Good b → Equal.noDupKeys a.abs = true → Equal.noDupKeys b.abs = true →
      a.eqv b = true → b.eqv a = true) ∧
    (∀ a b c : Node, Good a → Good b → Good c → Equal.noDupKeys a.abs = true → Equal.noDupKeys b.abs = true →
      Equal.noDupKeys c.abs = true → a.eqv b = true → b.eqv c = true → a.eqv c = true) := by
  refine ⟨eqv_refl, eqv_symm, eqv_trans, ?_, ?_, ?_⟩
  · intro a ha hd
    rw [C18_eq a a ha ha hd hd]
    exact eqv_refl _ hd
  · intro a b ha hb hda hdb h
    rw [C18_eq a b ha hb hda hdb] at h
    rw [C18_eq b a hb ha hdb hda]
    exact eqv_symm _ _ hda hdb h
  · intro a b c ha hb hc hda hdb hdc h1 h2
    rw [C18_eq a b ha hb hda hdb] at h1
    rw [C18_eq b c hb hc hdb hdc] at h2
    rw [C18_eq a c ha hc hda hdc]
    exact eqv_trans _ _ _ h1 h2

/-- `==` depends only on the abstract values: not on capacities, on the presence of a lookup map, on string
    ownership kinds (nor on the allocator, which a node does not record). -/
theorem C18_repr_independent (a a' b b' : Node) (ha : Good a) (ha' : Good a') (hb : Good b) (hb' : Good b')
    (hda : Equal.noDupKeys a.abs = true) (hdb : Equal.noDupKeys b.abs = true)
    (hea : a'.abs = a.abs) (heb : b'.abs = b.abs) : a'.eqv b' = a.eqv b := by
  rw [C18_eq a b ha hb hda hdb, C18_eq a' b' ha' hb' (hea ▸ hda) (heb ▸ hdb), hea, heb]

/-- in particular building / destroying the map, reserving capacity, or changing string ownership leaves every
    comparison unchanged: e.g. `CreateMap` -/
theorem C18_createMap_invisible (a a' b : Node) (ha : Good a) (hb : Good b)
    (hda : Equal.noDupKeys a.abs = true) (hdb : Equal.noDupKeys b.abs = true)
    (hc : createMapImpl a = some a') : a'.eqv b = a.eqv b ∧ b.eqv a' = b.eqv a := by
  have hg' : Good a' := (createMapImpl_inv hc).1 ha
  have habs : a'.abs = a.abs := by
    have := createMapImpl_abs a
    rw [hc] at this
    cases a <;> simp [Containers.createMap] at this ⊢
    exact this
  exact ⟨C18_repr_independent a a' b b ha hg' hb hb hda hdb habs rfl,
    C18_repr_independent b b a a' hb hb ha hg' hdb hda rfl habs⟩

/-- a deep copy (`CopyFrom`, either `copyString` flag) is equal to the original, in both directions -/
theorem C18_copy (cs : Bool) (a : Node) (ha : Good a) (hd : Equal.noDupKeys a.abs = true) :
    (copyOf cs a).eqv a = true ∧ a.eqv (copyOf cs a) = true := by
  obtain ⟨hg, _, habs⟩ := copyOf_props cs a
  constructor
  · rw [C18_eq _ a hg ha (habs ▸ hd) hd, habs]
    exact eqv_refl _ hd
  · rw [C18_eq a _ ha hg hd (habs ▸ hd), habs]
    exact eqv_refl _ hd

/-- a parse of the serialised text is equal to the original: for a duplicate-free finite well-formed value `v`,
    whatever `v'` the reference reader returns for the rendering of `v` (C06: it is `v`), every node representing
    `v'` equals every node representing `v`.  `FtoaFacts F` is the hypothesis of C06 about the double printer. -/
theorem C18_reparse (F : Sonic.Model.Serialize.FtoaFn) (hF : Sonic.Proofs.Serialize.FtoaFacts F) (v : JVal)
    (hwf : Render.WF v = true) (hfin : Render.AllFinite v = true) (hd : Equal.noDupKeys v = true)
    (bytes : List Nat) (hr : Render.render (Sonic.Model.Serialize.ftoaText F) v = some bytes)
    (v' : JVal) (hp : Json.parse bytes = .ok v')
    (a a' : Node) (ha : Good a) (ha' : Good a') (habs : a.abs = v) (habs' : a'.abs = v') :
    a'.eqv a = true ∧ a.eqv a' = true := by
  obtain ⟨b, h1, h2⟩ := Sonic.Props.C06.C06_roundtrip F hF v hwf hfin
  rw [hr] at h1
  cases h1
  rw [h2] at hp
  cases hp
  subst habs
  constructor
  · rw [C18_eq a' a ha' ha (habs' ▸ hd) hd, habs']
    exact eqv_refl _ hd
  · rw [C18_eq a a' ha ha' hd (habs' ▸ hd), habs']
    exact eqv_refl _ hd

/-! ## why the hypothesis on duplicate keys is needed -/

/-- `{"a":1,"a":1}` -/
def dupA : Node := .obj (some ⟨2, none⟩) [(.copy, [97], .num (.uint 1)), (.copy, [97], .num (.uint 1))]
/-- `{"a":1,"b":2}` -/
def dupB : Node := .obj (some ⟨2, none⟩) [(.copy, [97], .num (.uint 1)), (.copy, [98], .num (.uint 2))]
/-- `{"a":1,"a":2}` -/
def dupC : Node := .obj (some ⟨2, none⟩) [(.copy, [97], .num (.uint 1)), (.copy, [97], .num (.uint 2))]

/-- with duplicate keys `==` is neither symmetric (`{"a":1,"a":1} == {"a":1,"b":2}` but not conversely) nor
    reflexive (`{"a":1,"a":2} != itself`: the second member is compared with the first match) — on the model, which
    is the C++ behaviour, and on the spec function alike.  All three nodes satisfy the representation invariant. -/
theorem C18_asymmetric_dups :
    dupA.eqv dupB = true ∧ dupB.eqv dupA = false ∧ dupC.eqv dupC = false ∧
    Equal.eqv dupA.abs dupB.abs = true ∧ Equal.eqv dupB.abs dupA.abs = false ∧
    Equal.eqv dupC.abs dupC.abs = false ∧
    Equal.noDupKeys dupA.abs = false ∧ Equal.noDupKeys dupC.abs = false ∧
    Good dupA ∧ Good dupB ∧ Good dupC := by
  refine ⟨by decide, by decide, by decide, by decide, by decide, by decide, by decide, by decide, ?_, ?_, ?_⟩ <;>
    simp [dupA, dupB, dupC, Good_obj, objCap, objMap, mval]

/-! ## non-vacuity -/

/-- `{"k":[1,-2,1.0],"z":"x"}` with storage to spare, a map, owned strings … -/
def exA : Node :=
  .obj (some ⟨16, some [([107], 0), ([122], 1)]⟩)
    [(.free, [107], .arr (some 16) [.num (.uint 1), .num (.sint (-2)), .num (.real 0x3FF0000000000000)]),
     (.const, [122], .str .free [120])]
/-- … and the same value with the members in the other order, exact capacities, no map, parse-buffer strings -/
def exB : Node :=
  .obj (some ⟨2, none⟩)
    [(.copy, [122], .str .copy [120]),
     (.copy, [107], .arr (some 3) [.num (.uint 1), .num (.sint (-2)), .num (.real 0x3FF0000000000000)])]

example : exA.eqv exB = true ∧ exB.eqv exA = true := by decide
example : Equal.noDupKeys exA.abs = true ∧ Equal.noDupKeys exB.abs = true := by decide
/-- number kinds are distinguished: `1` vs `1.0`, `0.0` vs `-0.0` -/
example : (Node.num (.uint 1)).eqv (.num (.real 0x3FF0000000000000)) = false := by decide
example : (Node.num (.real 0)).eqv (.num (.real 0x8000000000000000)) = false := by decide
/-- array order matters -/
example : (Node.arr none [.null, .bool true]).eqv (.arr none [.bool true, .null]) = false := by decide

/-- `C18_reparse` for the literal `F64toa` model, with no hypothesis about the double printer left (C06 `C06_ftoaModel_facts`):
    serialise any duplicate-free finite well-formed value, parse the text with the reference reader, and every node representing the
    result equals every node representing the original. -/
theorem C18_reparse_model (v : JVal)
    (hwf : Render.WF v = true) (hfin : Render.AllFinite v = true) (hd : Equal.noDupKeys v = true)
    (bytes : List Nat) (hr : Render.render (Sonic.Model.Serialize.ftoaText Sonic.Model.Serialize.ftoaModel) v = some bytes)
    (v' : JVal) (hp : Json.parse bytes = .ok v')
    (a a' : Node) (ha : Good a) (ha' : Good a') (habs : a.abs = v) (habs' : a'.abs = v') :
    a'.eqv a = true ∧ a.eqv a' = true :=
  C18_reparse Sonic.Model.Serialize.ftoaModel Sonic.Props.C06.C06_ftoaModel_facts v hwf hfin hd bytes hr v' hp a a' ha ha' habs habs'

end Sonic.Props.C18
