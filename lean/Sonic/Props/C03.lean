import Sonic.Proofs.ParseTop
import Sonic.Proofs.ParseAssemble
import Sonic.Proofs.Xmemcpy
import Sonic.Proofs.ParseNumberOK

/-!
# C03 — A successful Parse yields exactly the value the text denotes

`Doc.value` maps the document's root node to a `Spec.JVal` (`Node.toJVal`): nesting, array elements in stack order,
object members as the stored `key, value` node pairs in order (duplicates kept), strings as the bytes
`str_[p .. p + n)` of the document's **final** string buffer, numbers with their stored kind (`uint` / `sint` / `real`
bit pattern).  `Spec.Json.parse` is the reference evaluator.

Hypotheses as in `Props/C01.lean`; nothing is assumed about numbers (known finding F6 is fixed in the code): by property C04 (`Proofs/ParseNumberOK.lean`: `numberOK_all`) number tokens of an accepted document
are stored with the kind and value `Spec.Number.scanNumber` gives.  `NumberCorrectOn bs`, the former per-input
assumption, is gone: it is false for valid texts such as `["1.5.3"]` (see `Props/C01.lean`).
-/

namespace Sonic.Props.C03
open Sonic.Gen Sonic.Spec Sonic.Model.Parse Sonic.Proofs.Parse

/-- **The document is the denoted value.**  Because string nodes are read from the final buffer, this includes that
    no string decoded in place is clobbered by later in-place decoding (in the proof: every finished node satisfies
    `GoodAt s n v` — it denotes `v` in every buffer that agrees with the current one below `pos_` — and every later
    step only writes at or above `pos_`, `Pres`, by `C05_prefix_preserved`). -/
theorem C03_value (W : Nat) (hW : 0 < W) (hW' : W ≤ 63) (pad bs : List Nat) (raw : List (Option Node)) (d : Doc)
    (hbs : ∀ x ∈ bs, x < 256) (hpad : ∀ x ∈ pad, x < 256) (hlen : pad.length = 61)
    (hraw : raw.length = setUpCap bs.length) (hL : bs.length + 4 < 2 ^ 32)
    (v : JVal) (hv : Json.parse bs = .ok v) :
    ∃ r, parseDoc W pad raw d bs = .ok r ∧ r.err = 0 ∧ r.doc.value = some v := by
  have h := parseDoc_spec ⟨hW, hW', hbs, hpad, hlen, hL⟩ (numberOK_all (by omega)) hraw d
  rw [hv] at h
  obtain ⟨r, hr, he, _, hval, _⟩ := h
  exact ⟨r, hr, he, hval⟩

/-- conversely, whenever the model succeeds its document is the value the reference evaluator assigns to the text -/
theorem C03_value_of_ok (W : Nat) (hW : 0 < W) (hW' : W ≤ 63) (pad bs : List Nat) (raw : List (Option Node)) (d : Doc)
    (hbs : ∀ x ∈ bs, x < 256) (hpad : ∀ x ∈ pad, x < 256) (hlen : pad.length = 61)
    (hraw : raw.length = setUpCap bs.length) (hL : bs.length + 4 < 2 ^ 32)
    (r : Result) (hr : parseDoc W pad raw d bs = .ok r) (he : r.err = 0) :
    ∃ v, Json.parse bs = .ok v ∧ r.doc.value = some v := by
  have h := parseDoc_spec ⟨hW, hW', hbs, hpad, hlen, hL⟩ (numberOK_all (by omega)) hraw d
  cases hj : Json.parse bs with
  | ok v =>
    rw [hj] at h
    obtain ⟨r', hr', _, _, hval, _⟩ := h
    rw [hr] at hr'; injection hr' with hr'; subst hr'
    exact ⟨v, rfl, hval⟩
  | error e =>
    rw [hj] at h
    obtain ⟨r', hr', he', _⟩ := h
    rw [hr] at hr'; injection hr' with hr'; subst hr'
    omega

/-- **Stack assembly yields the tree the events denote.**  `evNode n` is the sequence of handler callbacks for a
    finished tree `n` (`finNode`: no placeholder, objects hold `key, value` pairs): one `SONIC_ADD_NODE` callback per
    scalar / string / key, and `Start*`, the children's events in order, `End*(count)` per container.  Replaying it on
    a node stack that holds the constructed nodes `ns` and has room for `countNode n` more nodes (a) never faults and
    never declines, (b) leaves exactly `ns ++ [n]` — `End*` has copied the `count` children from
    `st[parent + 1 ..]` in order and reset `np_` to `parent + 1` — and (c) restores `parent_`. -/
theorem C03_sax_assemble (n : Node) (hfin : finNode n = true) (sax : Sax) (ns : List Node)
    (hs : StackNodes sax ns) (hroom : sax.np + countNode n ≤ sax.cap) :
    ∃ sax', runEvs sax (evNode n) = .ok (sax', true) ∧ StackNodes sax' (ns ++ [n]) ∧
      sax'.parent = sax.parent ∧ sax'.cap = sax.cap :=
  assemble n hfin sax ns hs hroom

/-- the root node of every successfully parsed document is such a finished tree (so `evNode root` is well defined and
    `C03_sax_assemble` applies to it) -/
theorem C03_root_finished (W : Nat) (hW : 0 < W) (hW' : W ≤ 63) (pad bs : List Nat) (raw : List (Option Node))
    (d : Doc) (hbs : ∀ x ∈ bs, x < 256) (hpad : ∀ x ∈ pad, x < 256) (hlen : pad.length = 61)
    (hraw : raw.length = setUpCap bs.length) (hL : bs.length + 4 < 2 ^ 32)
    (r : Result) (hr : parseDoc W pad raw d bs = .ok r) (he : r.err = 0) : finNode r.doc.root = true := by
  obtain ⟨v, _, hval⟩ := C03_value_of_ok W hW hW' pad bs raw d hbs hpad hlen hraw hL r hr he
  unfold Doc.value at hval
  cases hs : r.doc.str with
  | none => rw [hs] at hval; exact fin_of_toJVal _ _ _ hval
  | some buf => rw [hs] at hval; exact fin_of_toJVal _ _ _ hval

/-! ## non-vacuity -/

/-- `{"a":[1,"x\n",{}],"a":-2,"b":1.5}`: nesting, order, duplicate key kept, number kinds, a decoded string -/
def exDoc : List Nat :=
  [0x7B, 0x22, 0x61, 0x22, 0x3A, 0x5B, 0x31, 0x2C, 0x22, 0x78, 0x5C, 0x6E, 0x22, 0x2C, 0x7B, 0x7D, 0x5D, 0x2C,
   0x22, 0x61, 0x22, 0x3A, 0x2D, 0x32, 0x2C, 0x22, 0x62, 0x22, 0x3A, 0x31, 0x2E, 0x35, 0x7D]

example : treeOf (parse 32 runPad exDoc) = some "{k61:[u1,s780a,{}],k61:i-2,k62:d4609434218613702656}" ∧
    (match Json.parse exDoc with | .ok v => some v.show | .error _ => none) =
      some "{k61:[u1,s780a,{}],k61:i-2,k62:d4609434218613702656}" := by decide +kernel

/-- two escaped strings in a row, the second decoded in place after the first: `["a\n\/x","\tb\\"]` -/
def exStrs : List Nat :=
  [0x5B, 0x22, 0x61, 0x5C, 0x6E, 0x5C, 0x2F, 0x78, 0x22, 0x2C, 0x22, 0x5C, 0x74, 0x62, 0x5C, 0x5C, 0x22, 0x5D]

example : treeOf (parse 32 runPad exStrs) = some "[s610a2f78,s09625c]" ∧
    treeOf (parse 16 runPad exStrs) = some "[s610a2f78,s09625c]" := by decide +kernel

/-- with a `\u` escape and a surrogate pair: `["a\u00e9","\ud83d\ude00"]` -/
example : treeOf (parse 32 runPad [0x5B, 0x22, 0x61, 0x5C, 0x75, 0x30, 0x30, 0x65, 0x39, 0x22, 0x2C, 0x22, 0x5C, 0x75,
    0x64, 0x38, 0x33, 0x64, 0x5C, 0x75, 0x64, 0x65, 0x30, 0x30, 0x22, 0x5D]) = some "[s61c3a9,sf09f9880]" := by
  decide +kernel

/-- the hypotheses of `C03_value` are satisfiable -/
example : ∃ r, parseDoc 32 runPad (List.replicate 16 none) Doc.fresh exStrs = .ok r ∧ r.err = 0 ∧
    r.doc.value = some (.arr [.str [0x61, 0x0A, 0x2F, 0x78], .str [0x09, 0x62, 0x5C]]) :=
  C03_value 32 (by decide) (by decide) runPad exStrs _ Doc.fresh (by decide) (by decide) (by decide) (by decide)
    (by decide) _ (by rfl)

/-- `C03_sax_assemble` on `[null,{"k":[]}]`: the eight callbacks rebuild the tree on an empty 16-slot stack -/
example : ∃ sax', runEvs (Sax.setUp 0 (List.replicate 16 none))
      (evNode (.arr [.null, .obj [.str 5 1, .arr []]])) = .ok (sax', true) ∧
    StackNodes sax' [.arr [.null, .obj [.str 5 1, .arr []]]] := by
  obtain ⟨sax', h1, h2, _⟩ := C03_sax_assemble (.arr [.null, .obj [.str 5 1, .arr []]]) (by decide)
    (Sax.setUp 0 (List.replicate 16 none)) [] ⟨by decide, rfl, by decide, rfl⟩ (by decide)
  exact ⟨sax', h1, by simpa using h2⟩

/-- **The children-block copy is a copy.**  `SAXHandler::EndArray/EndObject` move the finished run of element / member nodes from the
    node stack into the container's children block with `internal::Xmemcpy<16|32>`; the parser model treats that step as a list copy.
    For all four kernels (AVX2/SSE × 16/32-byte chunks, modelled cursor by cursor in `Sonic.Model.Xmemcpy`), every chunk count and
    every pair of blocks holding at least `chunks` chunks: no load or store leaves the first `chunks` chunks, and afterwards the
    destination is the source's first `chunks` chunks followed by the destination's own untouched remainder. -/
theorem C03_xmemcpy_copy {α : Type} (W size : Nat) (hsz : size = 16 ∨ size = 32) (src dst : List α) (chunks : Nat)
    (hs : chunks * Sonic.Model.Xmemcpy.cells size ≤ src.length) (hd : chunks * Sonic.Model.Xmemcpy.cells size ≤ dst.length) :
    (Sonic.Model.Xmemcpy.xmemcpy W size src dst chunks).ok = true ∧
      (Sonic.Model.Xmemcpy.xmemcpy W size src dst chunks).dst =
        src.take (chunks * Sonic.Model.Xmemcpy.cells size) ++ dst.drop (chunks * Sonic.Model.Xmemcpy.cells size) :=
  Sonic.Proofs.Xmemcpy.xmemcpy_copy W size hsz src dst chunks hs hd

/-- non-vacuity: 7 chunks of 32 bytes (one unrolled round + the 3-chunk tail) into a longer block -/
example : (Sonic.Model.Xmemcpy.xmemcpy 32 32 (List.range 14) (List.replicate 20 99) 7).dst =
    List.range 14 ++ List.replicate 6 99 := by decide

end Sonic.Props.C03
