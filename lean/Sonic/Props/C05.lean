import Sonic.Model.StringDec
import Sonic.Spec.StringLit
import Sonic.Proofs.StringBits
import Sonic.Proofs.StringDec

/-!
# C05 — String literals decode exactly per RFC 8259 escapes, wherever they sit

Property theorems (statements fixed here; helper lemmas live in `Sonic/Proofs/StringBits.lean` and
`Sonic/Proofs/StringDec.lean`).  The model (`Sonic.Model.StringDec`) is a literal transcription of
`parseStringInplace` (with `StringBlock`, `handle_unicode_codepoint`, `hex_to_u32_nocheck`, `codepoint_to_utf8`)
over the *generated* tables, parametric in the vector width `W`; the spec (`Sonic.Spec.decodeLit`) is the
byte-at-a-time RFC 8259 §7 decoder, which has no notion of blocks.

Range of `W`: every theorem holds for `0 < W ≤ 63` — a block load at a scan position `src` touches
`[src, src + W)`, the scan position never passes the sentinel quote at `len + 1`, and the buffer has `len + 64`
bytes, so `W ≤ 63` is exactly what the 64-byte padding justifies (`W = 64` can read one byte too far: see
`C05_w64_faults`).  The real code uses `W = 16` (SSE) and `W = 32` (AVX2); the `uint32_t` mask idioms are
proved equal to the model's block predicates for vectors of at most 32 lanes (`C05_block_idioms`).
-/

namespace Sonic.Props.C05
open Sonic.Gen Sonic.Spec Sonic.Model.StringDec Sonic.Proofs.StringBits Sonic.Proofs.StringDec

/-! ## tables and scalar helpers -/

/-- `kEscapedMap` is the RFC 8259 two-character escape table: `"`→0x22, `\`→0x5C, `/`→0x2F, `b`→8, `f`→12,
    `n`→10, `r`→13, `t`→9, every other byte (including `u`, handled before the lookup) → 0 -/
theorem C05_escmap (b : Nat) (hb : b < 256) :
    kEscapedMap[b]? = some
      (if b = 0x22 then 0x22 else if b = 0x5C then 0x5C else if b = 0x2F then 0x2F
       else if b = 0x62 then 8 else if b = 0x66 then 12 else if b = 0x6E then 10
       else if b = 0x72 then 13 else if b = 0x74 then 9 else 0) ∧
    kEscapedMap[b]? = some (match simpleEscape b with | some v => v | none => 0) := by
  refine ⟨?_, escmap_table b hb⟩
  rw [escmap_table b hb]
  unfold escVal simpleEscape
  repeat' split
  all_goals simp_all

example : kEscapedMap[0x6E]? = some 10 ∧ kEscapedMap[0x75]? = some 0 ∧ kEscapedMap[0x78]? = some 0 := by
  decide +kernel

/-- `hex_to_u32_nocheck` on four arbitrary bytes: the positional value of four hex digits (either case), and
    otherwise `0xFFFFFFFF` — in particular a value `≥ 2^16`, and one that `codepoint_to_utf8` rejects -/
theorem C05_hex4 (b0 b1 b2 b3 : Nat) (l0 : b0 < 256) (l1 : b1 < 256) (l2 : b2 < 256) (l3 : b3 < 256) :
    ∃ r, hexToU32 b0 b1 b2 b3 = .ok r ∧
      (∀ h0 h1 h2 h3, hexVal b0 = some h0 → hexVal b1 = some h1 → hexVal b2 = some h2 → hexVal b3 = some h3 →
        r = 4096 * h0 + 256 * h1 + 16 * h2 + h3 ∧ r < 2 ^ 16) ∧
      ((hexVal b0 = none ∨ hexVal b1 = none ∨ hexVal b2 = none ∨ hexVal b3 = none) →
        r = 0xFFFFFFFF ∧ r ≥ 2 ^ 16) := by
  refine ⟨_, hexToU32_eq b0 b1 b2 b3 l0 l1 l2 l3, ?_, ?_⟩
  · intro h0 h1 h2 h3 e0 e1 e2 e3
    have := hexVal_lt e0; have := hexVal_lt e1; have := hexVal_lt e2; have := hexVal_lt e3
    have : hexResult b0 b1 b2 b3 = 4096 * h0 + 256 * h1 + 16 * h2 + h3 := by
      unfold hexResult; rw [e0, e1, e2, e3]
    rw [this]; exact ⟨rfl, by omega⟩
  · intro h
    have : hexResult b0 b1 b2 b3 = 0xFFFFFFFF := by
      unfold hexResult
      generalize hexVal b0 = x0 at h ⊢
      generalize hexVal b1 = x1 at h ⊢
      generalize hexVal b2 = x2 at h ⊢
      generalize hexVal b3 = x3 at h ⊢
      cases x0 <;> cases x1 <;> cases x2 <;> cases x3 <;> first | rfl | simp at h
    rw [this]; exact ⟨rfl, by decide⟩

example : hexToU32 0x64 0x38 0x33 0x44 = .ok 0xD83D ∧ hexToU32 0x30 0x30 0x67 0x30 = .ok 0xFFFFFFFF := by
  decide +kernel

/-- `codepoint_to_utf8` is UTF-8 (RFC 3629) on every code point, and returns length 0 above `0x10FFFF` -/
theorem C05_utf8 (cp : Nat) :
    (cp ≤ 0x10FFFF → codepointToUtf8 cp = utf8 cp ∧ 0 < (utf8 cp).length ∧ (utf8 cp).length ≤ 4) ∧
    (0x10FFFF < cp → codepointToUtf8 cp = []) := by
  refine ⟨fun h => ⟨codepointToUtf8_eq cp, utf8_length (by omega)⟩, fun h => ?_⟩
  rw [codepointToUtf8_eq]; unfold utf8
  simp only [if_neg (show ¬ cp < 0x80 by omega), if_neg (show ¬ cp < 0x800 by omega),
    if_neg (show ¬ cp < 0x10000 by omega), if_neg (show ¬ cp < 0x110000 by omega)]

example : codepointToUtf8 0x1F600 = [0xF0, 0x9F, 0x98, 0x80] ∧ codepointToUtf8 0xE9 = [0xC3, 0xA9] ∧
    codepointToUtf8 0x20AC = [0xE2, 0x82, 0xAC] ∧ codepointToUtf8 0xFFFFFFFF = [] := by decide

/-- the `uint32_t` mask idioms of `StringBlock` (`HasUnescaped`, `HasQuoteFirst`, `HasBackslash`, `QuoteIndex`,
    `BsIndex`) on a vector of at most 32 lanes are the model's "index of the first lane" comparisons -/
theorem C05_block_idioms (v : List Nat) (hv : v.length ≤ 32) :
    let bs := mask isBs v; let quote := mask isQuote v; let unesc := mask isCtl v
    let k := mkBlock v
    ((decide (((quote + 2 ^ 32 - 1) % 2 ^ 32) &&& unesc ≠ 0)) = k.hasUnescaped) ∧
    ((decide (((bs + 2 ^ 32 - 1) % 2 ^ 32) &&& quote ≠ 0) && !k.hasUnescaped) = k.hasQuoteFirst) ∧
    ((decide (((quote + 2 ^ 32 - 1) % 2 ^ 32) &&& bs ≠ 0)) = k.hasBackslash) ∧
    (quote ≠ 0 → ctz 32 quote = k.qi) ∧ (bs ≠ 0 → ctz 32 bs = k.bi) :=
  block_idioms v hv

example : mask isQuote [0x61, 0x5C, 0x22, 0x01, 0x22] = 0b10100 ∧ mask isBs [0x61, 0x5C, 0x22, 0x01, 0x22] = 0b10 ∧
    (mkBlock [0x61, 0x5C, 0x22, 0x01, 0x22]).hasBackslash = true := by decide

/-! ## `handle_unicode_codepoint` -/

/-- result of a successful `handle_unicode_codepoint`: the bytes `xs` were stored at `dst`, nothing else below
    `dst` or from `next` on was touched -/
def Wrote (b b' : List Nat) (dst next : Nat) (xs : List Nat) : Prop :=
  b'.length = b.length ∧ b'.take (dst + xs.length) = b.take dst ++ xs ∧ b'.drop next = b.drop next

/-- `handle_unicode_codepoint` at a `\u` escape whose four hex digits denote the 16-bit value `H`, with arbitrary
    bytes after it, accepts exactly per RFC 8259 pairing:
    * `H` not a surrogate: the UTF-8 of `H`, 6 bytes consumed;
    * `H` a high surrogate followed by `\u` + four hex digits denoting a low surrogate `L`: the UTF-8 of the
      supplementary code point `0x10000 + ((H - 0xD800) << 10) + (L - 0xDC00)`, 12 bytes consumed;
    * `H` a lone low surrogate, or a high surrogate followed by anything else: rejected;
    and a `\u` not followed by four hex digits is rejected. -/
theorem C05_surrogates (b : List Nat) (src dst : Nat) (hby : ∀ (i c : Nat), b[i]? = some c → c < 256)
    (hlen : src + 12 ≤ b.length) (hd : dst ≤ src) (hu : b[src + 1]? = some 0x75) :
    (hex4 b (src + 2) = none → handleUnicode b src dst = .ok none) ∧
    (∀ H, hex4 b (src + 2) = some H →
      (isHighSurrogate H = false → isLowSurrogate H = false →
        ∃ b', handleUnicode b src dst = .ok (some (b', src + 6, dst + (utf8 H).length)) ∧
          Wrote b b' dst (src + 6) (utf8 H)) ∧
      (isLowSurrogate H = true → handleUnicode b src dst = .ok none) ∧
      (isHighSurrogate H = true →
        (∀ L, b[src + 6]? = some 0x5C → b[src + 7]? = some 0x75 → hex4 b (src + 8) = some L →
          isLowSurrogate L = true →
          ∃ b', handleUnicode b src dst =
              .ok (some (b', src + 12, dst + (utf8 (pairCodePoint H L)).length)) ∧
            Wrote b b' dst (src + 12) (utf8 (pairCodePoint H L))) ∧
        (¬(b[src + 6]? = some 0x5C ∧ b[src + 7]? = some 0x75 ∧
            ∃ L, hex4 b (src + 8) = some L ∧ isLowSurrogate L = true) →
          handleUnicode b src dst = .ok none))) := by
  have hI : Inv b dst b src dst [] := ⟨rfl, by simp, rfl, hd, by simp⟩
  have hspec := handleUnicode_spec hI hu hlen (fun i c _ hc => hby i c hc)
  have hwrote : ∀ {b' xs p'}, Inv b dst b' p' (dst + xs.length) ([] ++ xs) → Wrote b b' dst p' xs :=
    fun h => ⟨h.len, by rw [h.pre]; simp, h.suf⟩
  rw [escapeAt_u hu] at hspec
  unfold uEscape at hspec
  rw [show src + 1 + 1 = src + 2 by omega, show src + 1 + 5 = src + 6 by omega,
    show src + 1 + 6 = src + 7 by omega, show src + 1 + 7 = src + 8 by omega,
    show src + 1 + 11 = src + 12 by omega] at hspec
  refine ⟨?_, ?_⟩
  · intro hn
    rw [hn] at hspec; exact hspec
  · intro H hH
    rw [hH] at hspec
    simp only at hspec
    refine ⟨?_, ?_, fun h1 => ⟨?_, ?_⟩⟩
    · intro h1 h2
      rw [h1, h2] at hspec
      simp only [Bool.false_eq_true, if_false] at hspec
      obtain ⟨b', e, hI2⟩ := hspec
      exact ⟨b', e, hwrote hI2⟩
    · intro h2
      have h1 : isHighSurrogate H = false := by
        simp only [isHighSurrogate, isLowSurrogate, Bool.and_eq_true, decide_eq_true_eq,
          Bool.and_eq_false_iff, decide_eq_false_iff_not] at h2 ⊢
        omega
      rw [h1, h2] at hspec
      simp only [Bool.false_eq_true, if_false, if_true] at hspec
      exact hspec
    · intro L e6 e7 hL hlow
      rw [h1, e6, e7, hL] at hspec
      simp only [and_self, if_true] at hspec
      rw [hlow] at hspec
      simp only [if_true] at hspec
      obtain ⟨b', e, hI2⟩ := hspec
      exact ⟨b', e, hwrote hI2⟩
    · intro hnot
      rw [h1] at hspec
      simp only [if_true] at hspec
      by_cases h67 : b[src + 6]? = some 0x5C ∧ b[src + 7]? = some 0x75
      · rw [if_pos h67] at hspec
        cases hL : hex4 b (src + 8) with
        | none => rw [hL] at hspec; exact hspec
        | some L =>
          rw [hL] at hspec
          simp only at hspec
          by_cases hlow : isLowSurrogate L = true
          · exact absurd ⟨h67.1, h67.2, L, hL, hlow⟩ hnot
          · rw [if_neg hlow] at hspec; exact hspec
      · rw [if_neg h67] at hspec; exact hspec

/-- non-vacuity: `😀` (pair), `é` (BMP), `\\uDE00` (lone low), `\\uD83D\\u0041` (high + non-low),
    `\\uD83Dxx…` (high + no escape) -/
example :
    handleUnicode ([0x5C,0x75,0x44,0x38,0x33,0x44,0x5C,0x75,0x44,0x45,0x30,0x30] ++ [0x22,0,0]) 0 0 =
      .ok (some ([0xF0,0x9F,0x98,0x80,0x33,0x44,0x5C,0x75,0x44,0x45,0x30,0x30,0x22,0,0], 12, 4)) := by
  decide +kernel
example :
    handleUnicode ([0x5C,0x75,0x30,0x30,0x65,0x39] ++ List.replicate 8 0x22) 0 0 =
      .ok (some ([0xC3,0xA9,0x30,0x30,0x65,0x39] ++ List.replicate 8 0x22, 6, 2)) := by decide +kernel
example : handleUnicode ([0x5C,0x75,0x44,0x45,0x30,0x30] ++ List.replicate 8 0x22) 0 0 = .ok none := by
  decide +kernel
example :
    handleUnicode ([0x5C,0x75,0x44,0x38,0x33,0x44,0x5C,0x75,0x30,0x30,0x34,0x31] ++ [0x22,0,0]) 0 0 = .ok none := by
  decide +kernel
example : handleUnicode ([0x5C,0x75,0x44,0x38,0x33,0x44] ++ List.replicate 8 0x78) 0 0 = .ok none := by
  decide +kernel
/-- the hypotheses of `C05_surrogates` are satisfiable -/
example : ∃ (b : List Nat) (src dst : Nat), (∀ (i c : Nat), b[i]? = some c → c < 256) ∧ src + 12 ≤ b.length ∧
    dst ≤ src ∧ b[src + 1]? = some 0x75 ∧ hex4 b (src + 2) = some 0xD83D :=
  ⟨[0x61,0x5C,0x75,0x44,0x38,0x33,0x44,0x5C,0x75,0x44,0x45,0x30,0x30,0x22], 1, 0, by
    intro i c h
    have := List.mem_of_getElem? h
    simp only [List.mem_cons, List.not_mem_nil, or_false] at this
    omega, by decide, by decide, by decide, by decide⟩

/-! ## the whole decoder -/

/-- agreement of an outcome of the model with the reference decoder on the buffer `buf` from index `start` -/
def Agrees (buf : List Nat) (start : Nat) (r : Outcome) : Prop :=
  match r, decodeLit buf start with
  | .ok n next buf', some (out, next') =>
      (buf'.drop start).take n = out ∧ next = next' ∧ buf'.length = buf.length ∧ buf'[start + n]? = some 0
  | .err code, none =>
      code = kParseErrorUnEscaped ∨ code = kParseErrorEscapedFormat ∨ code = kParseErrorEscapedUnicode
  | _, _ => False

/-- the buffer of `allocateStringBuffer`, seen from a literal that starts at index `pre.length`:
    `pre` = everything up to and including the opening quote, `bs` = the rest of the input -/
def padded (pre bs pad : List Nat) : List Nat := pre ++ bs ++ [0x78, 0x22, 0x78] ++ pad

/-- **C05, main theorem** (literal at an arbitrary position `pre.length` of the padded buffer): for every
    vector width `0 < W ≤ 63`, every prefix `pre` (anything), every rest of input `bs` (bytes) and every padding
    `pad` (61 arbitrary bytes): the model performs no out-of-bounds access and terminates within its fuel
    (`.ok`), it accepts iff the reference decoder accepts, and then the decoded bytes `buf'[start, start+n)`
    and `next` are the reference's (and a NUL follows the decoded bytes); when it rejects, the error code is
    `UnEscaped`, `EscapedFormat` or `EscapedUnicode`.  The reference has no notion of blocks, so the outcome does
    not depend on the literal's length or its alignment to vector blocks. -/
theorem C05_decode_at (W : Nat) (hW : 0 < W) (hW' : W ≤ 63) (pre bs pad : List Nat)
    (hbs : ∀ x ∈ bs, x < 256) (hpad : ∀ x ∈ pad, x < 256) (hlen : pad.length = 61) :
    ∃ r, run W (padded pre bs pad) pre.length = .ok r ∧ Agrees (padded pre bs pad) pre.length r := by
  obtain ⟨r, hr, hf⟩ := run_ok (padded_ctx hW hW' pre bs pad hbs hpad hlen)
  refine ⟨r, hr, ?_⟩
  unfold Agrees padded
  cases r with
  | ok n next b' =>
    obtain ⟨out, hd, h1, h2, h3⟩ := final_ok_agrees (by simp) hf
    rw [hd]; exact ⟨h1, rfl, h2, h3⟩
  | err c =>
    obtain ⟨hd, hc⟩ := final_err_agrees hf
    rw [hd]; exact hc

/-- **C05** in the form of the harness (`parseStringHelper` on a fresh buffer, literal at index 0) -/
theorem C05_decode (W : Nat) (hW : 0 < W) (hW' : W ≤ 63) (bs pad : List Nat)
    (hbs : ∀ x ∈ bs, x < 256) (hpad : ∀ x ∈ pad, x < 256) (hlen : pad.length = 61) :
    ∃ r, run W (bs ++ [0x78, 0x22, 0x78] ++ pad) 0 = .ok r ∧ Agrees (bs ++ [0x78, 0x22, 0x78] ++ pad) 0 r := by
  have := C05_decode_at W hW hW' [] bs pad hbs hpad hlen
  simpa [padded] using this

/-- `W = 64` is not covered by the 64-byte padding (so `W ≤ 63` above is tight): 63 plain bytes and the sentinel
    `x` fill the first block, the next block load starts at the sentinel quote, index `len + 1 = 64`, and touches
    `buf[127]`, one past the end of the `len + 64 = 127` bytes -/
theorem C05_w64_faults :
    run 64 (List.replicate 63 0x61 ++ [0x78, 0x22, 0x78] ++ List.replicate 61 0) 0 = .error .oob := by
  decide +kernel

/-- accept/reject, decoded bytes and `next` do not depend on the vector width -/
theorem C05_width_independent (W₁ W₂ : Nat) (h1 : 0 < W₁) (h1' : W₁ ≤ 63) (h2 : 0 < W₂) (h2' : W₂ ≤ 63)
    (pre bs pad : List Nat) (hbs : ∀ x ∈ bs, x < 256) (hpad : ∀ x ∈ pad, x < 256) (hlen : pad.length = 61) :
    (∃ n next b₁ b₂, run W₁ (padded pre bs pad) pre.length = .ok (.ok n next b₁) ∧
        run W₂ (padded pre bs pad) pre.length = .ok (.ok n next b₂) ∧
        (b₁.drop pre.length).take n = (b₂.drop pre.length).take n) ∨
    (∃ c₁ c₂, run W₁ (padded pre bs pad) pre.length = .ok (.err c₁) ∧
        run W₂ (padded pre bs pad) pre.length = .ok (.err c₂)) := by
  obtain ⟨r1, e1, a1⟩ := C05_decode_at W₁ h1 h1' pre bs pad hbs hpad hlen
  obtain ⟨r2, e2, a2⟩ := C05_decode_at W₂ h2 h2' pre bs pad hbs hpad hlen
  unfold Agrees at a1 a2
  cases hd : decodeLit (padded pre bs pad) pre.length with
  | none =>
    rw [hd] at a1 a2
    cases r1 with
    | ok n next b => exact absurd a1 (by simp)
    | err c1 =>
      cases r2 with
      | ok n next b => exact absurd a2 (by simp)
      | err c2 => exact Or.inr ⟨c1, c2, e1, e2⟩
  | some x =>
    obtain ⟨out, nx⟩ := x
    rw [hd] at a1 a2
    cases r1 with
    | err c => exact absurd a1 (by simp)
    | ok n1 next1 b1 =>
      cases r2 with
      | err c => exact absurd a2 (by simp)
      | ok n2 next2 b2 =>
        simp only at a1 a2
        obtain ⟨o1, x1, l1, z1⟩ := a1
        obtain ⟨o2, x2, l2, z2⟩ := a2
        have hl := congrArg List.length o1
        have hl2 := congrArg List.length o2
        simp only [List.length_take, List.length_drop] at hl hl2
        have := lt_of_get z1
        have := lt_of_get z2
        have hn : n1 = n2 := by omega
        subst hn; subst x1; subst x2
        exact Or.inl ⟨n1, _, b1, b2, e1, e2, by rw [o1, o2]⟩

/-- a successful decode touches nothing outside `[start, next)`: the bytes at indices `< start` and `≥ next` are
    unchanged, the buffer keeps its length, the decoded bytes and their NUL lie inside `[start, next)`, and `next`
    is at most one past the sentinel quote -/
theorem C05_prefix_preserved (W : Nat) (hW : 0 < W) (hW' : W ≤ 63) (pre bs pad : List Nat)
    (hbs : ∀ x ∈ bs, x < 256) (hpad : ∀ x ∈ pad, x < 256) (hlen : pad.length = 61)
    (n next : Nat) (b' : List Nat) (h : run W (padded pre bs pad) pre.length = .ok (.ok n next b')) :
    b'.length = (padded pre bs pad).length ∧
    b'.take pre.length = (padded pre bs pad).take pre.length ∧
    b'.drop next = (padded pre bs pad).drop next ∧
    pre.length + n < next ∧ next ≤ pre.length + bs.length + 2 := by
  obtain ⟨r, hr, hf⟩ := run_ok (padded_ctx hW hW' pre bs pad hbs hpad hlen)
  unfold padded at h ⊢
  rw [h] at hr
  injection hr with hr
  subst hr
  obtain ⟨out, _, hn, hI, hnext⟩ := hf
  have hle := hI.le
  refine ⟨hI.len, ?_, hI.suf, by omega, by omega⟩
  have := congrArg (List.take pre.length) hI.pre
  rw [List.take_take, Nat.min_eq_left (by omega),
    List.take_left' (by rw [List.length_take]; simp)] at this
  exact this

/-- sanity of the reference itself (independent of the implementation): a literal without escapes decodes to
    its own bytes, whatever its length and whatever follows the closing quote -/
theorem C05_spec_plain (bs rest : List Nat) (h : ∀ x ∈ bs, 0x20 ≤ x ∧ x ≠ 0x22 ∧ x ≠ 0x5C) :
    decodeLit (bs ++ 0x22 :: rest) 0 = some (bs, bs.length + 1) := by
  rw [decodeLit_eq_dec, dec_plain_run (bs ++ 0x22 :: rest) bs.length 0 (by simp)]
  · rw [Nat.zero_add, dec_quote (by simp)]
    simp [prepend]
  · intro j hj c hc
    rw [Nat.zero_add, List.getElem?_append_left hj] at hc
    obtain ⟨h1, h2, h3⟩ := h c (List.mem_of_getElem? hc)
    simp only [isQuote, isBs, isCtl, beq_eq_false_iff_ne, ne_eq, decide_eq_false_iff_not]
    exact ⟨h2, h3, by omega⟩

/-- the main theorem instantiated: a 40-byte payload with `\\n` at offsets 31/32 -/
example : ∃ r, run 32 ((List.replicate 31 0x61 ++ [0x5C, 0x6E] ++ List.replicate 6 0x62 ++ [0x22])
      ++ [0x78, 0x22, 0x78] ++ List.replicate 61 0xFF) 0 = .ok r ∧
    Agrees ((List.replicate 31 0x61 ++ [0x5C, 0x6E] ++ List.replicate 6 0x62 ++ [0x22])
      ++ [0x78, 0x22, 0x78] ++ List.replicate 61 0xFF) 0 r :=
  C05_decode 32 (by decide) (by decide) _ _ (by decide) (by decide) (by decide)

/-! ## non-vacuity: concrete literals around the 32-byte block boundary, checked by evaluation -/

/-- what a caller observes of a run on a literal starting at `start`: `(n, next, decoded bytes)` / error code -/
def observe (start : Nat) : Except Fault Outcome → Option (Except Nat (Nat × Nat × List Nat))
  | .ok (.ok n next b) => some (.ok (n, next, (b.drop start).take n))
  | .ok (.err code) => some (.error code)
  | .error _ => none

instance : DecidableEq (Except Nat (Nat × Nat × List Nat))
  | .ok a, .ok b => if h : a = b then isTrue (by rw [h]) else isFalse (fun e => h (by injection e))
  | .error a, .error b => if h : a = b then isTrue (by rw [h]) else isFalse (fun e => h (by injection e))
  | .ok _, .error _ => isFalse (fun e => by cases e)
  | .error _, .ok _ => isFalse (fun e => by cases e)

/-- 31 plain bytes, then `\n` straddling offsets 31/32, then `ab"`: properly closed, decoded in place
    (the whole mutated buffer is shown: the NUL lands on the stale `b`, the closing quote stays) -/
example :
    run 32 (List.replicate 31 0x61 ++ [0x5C, 0x6E, 0x61, 0x62, 0x22] ++ [0x78, 0x22, 0x78] ++ List.replicate 61 0xAA) 0
      = .ok (.ok 34 36
          (List.replicate 31 0x61 ++ [0x0A, 0x61, 0x62, 0x00, 0x22] ++ [0x78, 0x22, 0x78] ++ List.replicate 61 0xAA)) ∧
    decodeLit (List.replicate 31 0x61 ++ [0x5C, 0x6E, 0x61, 0x62, 0x22] ++ [0x78, 0x22, 0x78] ++ List.replicate 61 0xAA) 0
      = some (List.replicate 31 0x61 ++ [0x0A, 0x61, 0x62], 36) := by
  decide +kernel

/-- the same payload at `W = 16`, and with the escape at offsets 32/33, 15/16: same kind of result -/
example :
    observe 0 (run 16 (List.replicate 31 0x61 ++ [0x5C, 0x6E, 0x61, 0x62, 0x22] ++ [0x78, 0x22, 0x78]
        ++ List.replicate 61 0xAA) 0) = some (.ok (34, 36, List.replicate 31 0x61 ++ [0x0A, 0x61, 0x62])) ∧
    observe 0 (run 32 (List.replicate 32 0x61 ++ [0x5C, 0x6E, 0x61, 0x62, 0x22] ++ [0x78, 0x22, 0x78]
        ++ List.replicate 61 0xAA) 0) = some (.ok (35, 37, List.replicate 32 0x61 ++ [0x0A, 0x61, 0x62])) ∧
    observe 0 (run 16 (List.replicate 15 0x61 ++ [0x5C, 0x6E, 0x61, 0x62, 0x22] ++ [0x78, 0x22, 0x78]
        ++ List.replicate 61 0xAA) 0) = some (.ok (18, 20, List.replicate 15 0x61 ++ [0x0A, 0x61, 0x62])) := by
  decide +kernel

/-- a surrogate pair `\uD83D\uDE00` straddling offset 32 (it starts at 27), not closed by the input:
    the sentinel `x"` closes the literal (the parser then fails on the byte after it); padding = backslashes -/
example :
    observe 0 (run 32 (List.replicate 27 0x61 ++ [0x5C,0x75,0x44,0x38,0x33,0x44,0x5C,0x75,0x44,0x45,0x30,0x30, 0x7A]
        ++ [0x78, 0x22, 0x78] ++ List.replicate 61 0x5C) 0)
      = some (.ok (33, 42, List.replicate 27 0x61 ++ [0xF0, 0x9F, 0x98, 0x80, 0x7A, 0x78])) ∧
    decodeLit (List.replicate 27 0x61 ++ [0x5C,0x75,0x44,0x38,0x33,0x44,0x5C,0x75,0x44,0x45,0x30,0x30, 0x7A]
        ++ [0x78, 0x22, 0x78] ++ List.replicate 61 0x5C) 0
      = some (List.replicate 27 0x61 ++ [0xF0, 0x9F, 0x98, 0x80, 0x7A, 0x78], 42) := by
  decide +kernel

/-- rejections: a raw control byte at offset 32, an unknown escape at 31/32, a lone low surrogate, a high
    surrogate followed by a non-surrogate escape, a trailing backslash swallowed by the sentinel `x` -/
example :
    run 32 (List.replicate 32 0x61 ++ [0x01, 0x22] ++ [0x78, 0x22, 0x78] ++ List.replicate 61 0) 0 = .ok (.err 4) ∧
    run 32 (List.replicate 31 0x61 ++ [0x5C, 0x71, 0x22] ++ [0x78, 0x22, 0x78] ++ List.replicate 61 0) 0 = .ok (.err 5) ∧
    run 32 ([0x5C,0x75,0x44,0x45,0x30,0x30,0x22] ++ [0x78, 0x22, 0x78] ++ List.replicate 61 0) 0 = .ok (.err 6) ∧
    run 16 ([0x5C,0x75,0x44,0x38,0x33,0x44,0x5C,0x75,0x30,0x30,0x34,0x31,0x22] ++ [0x78, 0x22, 0x78]
            ++ List.replicate 61 0) 0 = .ok (.err 6) ∧
    run 16 ([0x61, 0x5C] ++ [0x78, 0x22, 0x78] ++ List.replicate 61 0) 0 = .ok (.err 5) ∧
    decodeLit (List.replicate 32 0x61 ++ [0x01, 0x22] ++ [0x78, 0x22, 0x78] ++ List.replicate 61 0) 0 = none := by
  decide +kernel

/-- the known difference in the error *code* (never in accept/reject): an invalid escape followed by a raw control
    byte reports `UnEscaped` when both lie in one block and `EscapedFormat` when the block boundary separates
    them -/
example :
    run 32 (List.replicate 15 0x61 ++ [0x5C, 0x71, 0x01, 0x22] ++ [0x78, 0x22, 0x78] ++ List.replicate 61 0) 0
      = .ok (.err 4) ∧
    run 16 (List.replicate 15 0x61 ++ [0x5C, 0x71, 0x01, 0x22] ++ [0x78, 0x22, 0x78] ++ List.replicate 61 0) 0
      = .ok (.err 5) := by
  decide +kernel

/-- a literal in the middle of a buffer (`pre` non-empty): `{"k":"a\tb"}` with the value literal at index 6;
    the bytes before index 6 are untouched -/
example :
    observe 6 (run 32 (padded [0x7B,0x22,0x6B,0x22,0x3A,0x22] [0x61,0x5C,0x74,0x62,0x22,0x7D] (List.replicate 61 0)) 6)
      = some (.ok (3, 11, [0x61, 0x09, 0x62])) := by
  decide +kernel

end Sonic.Props.C05
