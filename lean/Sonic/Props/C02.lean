import Sonic.Proofs.ParseTop
import Sonic.Proofs.ParseNumberOK

/-!
# C02 — Parse is total and memory-safe on arbitrary bytes for every allocator kind

The model (`Sonic.Model.Parse`) is *checked*: a byte load/store outside the `len + 64` byte string buffer is the fault
`.oob` (`.str` inside the string decoder), a node-stack index `≥` the allocation is `.stackOob`, reading or destroying
a stack slot that holds raw `realloc` memory (or a stale copy of a node that was moved into a container) is `.uninit`,
reading `o.next.ofs` of a node that is not a `Start*` placeholder is `.badNode`, `depth.back()` / `pop_back()` on an
empty vector and the `sonic_assert`s of `skip_space` are `.assert`, a loop that outruns its fuel is `.fuel`.  So
"`parseDoc … = .ok r`" *is* the statement that none of this happens; the theorems below say so for every width,
every content of the uninitialised memory (`pad`: the 61 bytes after the sentinel; `raw`: the node stack as
`realloc` returns it), every previous state `d` of a reused document, and **every** byte string `bs`.

Standing hypotheses: as in `Props/C01.lean` (`0 < W ≤ 63`, bytes `< 256`, `pad.length = 61`,
`raw.length = setUpCap bs.length`, `bs.length + 4 < 2^32`, and — because the proof goes through the simulation of the
reference reader — nothing about numbers (known finding F6 is fixed in the code, `numberOK_all`; the former per-input assumption `NumberCorrectOn bs` has been discharged, see `Props/C01.lean`).  In particular the theorems now cover texts such as `[1.5.3]`, where the number model's
*value* is not the reference's (`C04_native_guard_needed`): the parse still returns, without fault, with an error).

Heap ledger: `Doc.mallocs` / `Doc.frees` count the blocks obtained and released through the allocator and
`realloc/free` (string buffer, node stack, one block per non-empty container) by `destroyDom`, `parseImpl`,
`~SAXHandler`, as for an allocator with `kNeedFree` (the pool allocator never frees: for it only the absence of faults
matters).  `Balanced d`: every block not yet released is owned by `d`'s root tree or is `d.str`.
-/

namespace Sonic.Props.C02
open Sonic.Gen Sonic.Spec Sonic.Model.Parse Sonic.Proofs.Parse

/-- **No fault**: `GenericDocument::Parse` returns (success or error) on arbitrary bytes -/
theorem C02_no_fault (W : Nat) (hW : 0 < W) (hW' : W ≤ 63) (pad bs : List Nat) (raw : List (Option Node)) (d : Doc)
    (hbs : ∀ x ∈ bs, x < 256) (hpad : ∀ x ∈ pad, x < 256) (hlen : pad.length = 61)
    (hraw : raw.length = setUpCap bs.length) (hL : bs.length + 4 < 2 ^ 32) :
    ∃ r, parseDoc W pad raw d bs = .ok r := by
  have h := parseDoc_spec ⟨hW, hW', hbs, hpad, hlen, hL⟩ (numberOK_all (by omega)) hraw d
  cases hj : Json.parse bs with
  | ok v => rw [hj] at h; obtain ⟨r, hr, _⟩ := h; exact ⟨r, hr⟩
  | error e => rw [hj] at h; obtain ⟨r, hr, _⟩ := h; exact ⟨r, hr⟩

/-- **Reads and writes stay inside the `len + 64` byte buffer** (in `SkipSpace`'s two probes and 64-byte blocks, the
    4-byte literal compares, `hasTrailingChars`, and the `W`-byte blocks / in-place stores of the string decoder),
    and the buffer keeps its size -/
theorem C02_reads_bounded (W : Nat) (hW : 0 < W) (hW' : W ≤ 63) (pad bs : List Nat) (raw : List (Option Node)) (d : Doc)
    (hbs : ∀ x ∈ bs, x < 256) (hpad : ∀ x ∈ pad, x < 256) (hlen : pad.length = 61)
    (hraw : raw.length = setUpCap bs.length) (hL : bs.length + 4 < 2 ^ 32) :
    parseDoc W pad raw d bs ≠ .error .oob ∧ parseDoc W pad raw d bs ≠ .error .str ∧
      parseDoc W pad raw d bs ≠ .error .fuel ∧ parseDoc W pad raw d bs ≠ .error .assert := by
  obtain ⟨r, hr⟩ := C02_no_fault W hW hW' pad bs raw d hbs hpad hlen hraw hL
  rw [hr]
  exact ⟨by simp, by simp, by simp, by simp⟩

/-- the 64 bytes are needed: with one byte less (`pad.length = 60`), `[` followed by two spaces faults -/
example : (match parseDoc 32 (List.replicate 60 0xAA) (List.replicate 16 none) Doc.fresh [0x5B, 0x20, 0x20] with
    | .error .oob => true
    | _ => false) = true := by decide +kernel

/-- **The node stack**: after `Parser::Parse` the stack pointer is within the capacity `max(16, len/2 + 2)` that `SetUp`
    allocated, the allocation has exactly that many slots, and no access went beyond it (`.stackOob` is a fault, and
    there is none).  On success exactly one node (the root) is on the stack. -/
theorem C02_stack_bounded (W : Nat) (hW : 0 < W) (hW' : W ≤ 63) (pad bs : List Nat) (raw : List (Option Node))
    (hbs : ∀ x ∈ bs, x < 256) (hpad : ∀ x ∈ pad, x < 256) (hlen : pad.length = 61)
    (hraw : raw.length = setUpCap bs.length) (hL : bs.length + 4 < 2 ^ 32) :
    ∃ s, parserParse W (paddedBuf bs pad) bs.length (Sax.setUp bs.length raw) = .ok s ∧
      s.sax.np ≤ s.sax.cap ∧ s.sax.cap = (if bs.length / 2 + 2 < 16 then 16 else bs.length / 2 + 2) ∧
      s.sax.st.length = s.sax.cap ∧ (s.err = 0 → s.sax.np = 1) := by
  have h := parserParse_spec ⟨hW, hW', hbs, hpad, hlen, hL⟩ (numberOK_all (by omega)) hraw
  cases hj : Json.parse bs with
  | ok v =>
    rw [hj] at h
    obtain ⟨s, node, hs, _, _, hst, _, hcap, _⟩ := h
    exact ⟨s, hs, hst.le, hcap, hst.len, fun _ => hst.np⟩
  | error e =>
    rw [hj] at h
    obtain ⟨s, hs, hfin, _⟩ := h
    obtain ⟨ns, hns, _⟩ := hfin.st
    refine ⟨s, hs, hns.le, hfin.cap, hns.len, fun he => ?_⟩
    have := hfin.err
    omega

/-- when `node()` fails every callback returns false and leaves the stack untouched (the parser then takes
    `goto err_invalid_char`, see `valueSwitch`, `openArr`, `openObj`, `step`) -/
theorem C02_node_full (sax : Sax) (h : ¬ sax.np < sax.cap) (n : Node) :
    sax.scalar n = .ok (sax, false) ∧ sax.start = .ok (sax, false) :=
  ⟨scalar_full h n, start_full h⟩

/-- **`TearDown` only destroys constructed nodes**: when `Parser::Parse` returns, the slots `st_[0 .. np_)` all hold
    nodes that a callback has constructed (`StackNodes`), `TearDown` succeeds and releases exactly the blocks these
    nodes own; in particular the `Start*` placeholders of the containers that were open when an error occurred are
    constructed (type `kNull`) nodes. -/
theorem C02_teardown_init (W : Nat) (hW : 0 < W) (hW' : W ≤ 63) (pad bs : List Nat) (raw : List (Option Node))
    (hbs : ∀ x ∈ bs, x < 256) (hpad : ∀ x ∈ pad, x < 256) (hlen : pad.length = 61)
    (hraw : raw.length = setUpCap bs.length) (hL : bs.length + 4 < 2 ^ 32) :
    ∃ s ns, parserParse W (paddedBuf bs pad) bs.length (Sax.setUp bs.length raw) = .ok s ∧
      StackNodes s.sax ns ∧ s.sax.tearDown = .ok (allocsList ns) ∧ s.sax.mallocs = allocsList ns := by
  have h := parserParse_spec ⟨hW, hW', hbs, hpad, hlen, hL⟩ (numberOK_all (by omega)) hraw
  cases hj : Json.parse bs with
  | ok v =>
    rw [hj] at h
    obtain ⟨s, node, hs, _, _, hst, hled, _⟩ := h
    exact ⟨s, [node], hs, hst, tearDown_ok hst, by simp [allocsList, hled]⟩
  | error e =>
    rw [hj] at h
    obtain ⟨s, hs, hfin, _⟩ := h
    obtain ⟨ns, hns, hled⟩ := hfin.st
    exact ⟨s, ns, hs, hns, tearDown_ok hns, hled⟩

/-- **After a parse — successful or failed — the document can be used, reparsed and destroyed normally**: its root is
    a well-formed tree whose strings lie in its own `str_` buffer (`value` is defined; after a failure it is the null
    value), the heap ledger stays balanced (nothing leaked, nothing freed twice), and parsing any further input into
    the same document does not fault either. -/
theorem C02_reusable (W : Nat) (hW : 0 < W) (hW' : W ≤ 63) (pad bs : List Nat) (raw : List (Option Node)) (d : Doc)
    (hbs : ∀ x ∈ bs, x < 256) (hpad : ∀ x ∈ pad, x < 256) (hlen : pad.length = 61)
    (hraw : raw.length = setUpCap bs.length) (hL : bs.length + 4 < 2 ^ 32) :
    ∃ r, parseDoc W pad raw d bs = .ok r ∧ r.doc.value.isSome = true ∧ (r.err ≠ 0 → r.doc.root = .null) ∧
      (Balanced d → Balanced r.doc) ∧
      (∀ (W₂ : Nat) (pad₂ bs₂ : List Nat) (raw₂ : List (Option Node)), 0 < W₂ → W₂ ≤ 63 → (∀ x ∈ bs₂, x < 256) →
        (∀ x ∈ pad₂, x < 256) → pad₂.length = 61 → raw₂.length = setUpCap bs₂.length → bs₂.length + 4 < 2 ^ 32 →
        ∃ r₂, parseDoc W₂ pad₂ raw₂ r.doc bs₂ = .ok r₂) := by
  have h := parseDoc_spec ⟨hW, hW', hbs, hpad, hlen, hL⟩ (numberOK_all (by omega)) hraw d
  have hagain : ∀ (dd : Doc) (W₂ : Nat) (pad₂ bs₂ : List Nat) (raw₂ : List (Option Node)), 0 < W₂ → W₂ ≤ 63 →
      (∀ x ∈ bs₂, x < 256) → (∀ x ∈ pad₂, x < 256) → pad₂.length = 61 → raw₂.length = setUpCap bs₂.length →
      bs₂.length + 4 < 2 ^ 32 → ∃ r₂, parseDoc W₂ pad₂ raw₂ dd bs₂ = .ok r₂ :=
    fun dd W₂ pad₂ bs₂ raw₂ a b c e f g i => C02_no_fault W₂ a b pad₂ bs₂ raw₂ dd c e f g i
  cases hj : Json.parse bs with
  | ok v =>
    rw [hj] at h
    obtain ⟨r, hr, he, _, hv, hbal⟩ := h
    exact ⟨r, hr, by rw [hv]; rfl, fun hne => absurd he hne, hbal, hagain r.doc⟩
  | error e =>
    rw [hj] at h
    obtain ⟨r, hr, _, _, hroot, hv, hbal⟩ := h
    exact ⟨r, hr, by rw [hv]; rfl, fun _ => hroot, hbal, hagain r.doc⟩

/-- **No leak, no double free**: a balanced document (e.g. a fresh one) that is parsed into and then destroyed has
    released exactly what was obtained -/
theorem C02_no_leak (W : Nat) (hW : 0 < W) (hW' : W ≤ 63) (pad bs : List Nat) (raw : List (Option Node)) (d : Doc)
    (hbs : ∀ x ∈ bs, x < 256) (hpad : ∀ x ∈ pad, x < 256) (hlen : pad.length = 61)
    (hraw : raw.length = setUpCap bs.length) (hL : bs.length + 4 < 2 ^ 32)
    (hd : Balanced d) :
    ∃ r, parseDoc W pad raw d bs = .ok r ∧ r.doc.destroyDom.mallocs = r.doc.destroyDom.frees := by
  obtain ⟨r, hr, _, _, hbal, _⟩ := C02_reusable W hW hW' pad bs raw d hbs hpad hlen hraw hL
  exact ⟨r, hr, balanced_destroy (hbal hd)⟩

/-! ## non-vacuity -/

/-- `[[[1,` with a node stack full of garbage placeholders: error 2 at offset 5, document null, nothing leaked
    after destruction; then the same document parses `[true]`, with the other vector width -/
def exFail : Except Fault Result :=
  parseDoc 32 runPad (List.replicate 16 (some (.hole 99))) Doc.fresh [0x5B, 0x5B, 0x5B, 0x31, 0x2C]
def exAgain : Except Fault Result :=
  parseDoc 16 runPad (List.replicate 16 none) (docOf exFail) [0x5B, 0x74, 0x72, 0x75, 0x65, 0x5D]

example : errOff exFail = some (2, 5) ∧ treeOf exFail = some "n" ∧ leakOf exFail = some 0 ∧
    errOff exAgain = some (0, 6) ∧ treeOf exAgain = some "[t]" ∧ leakOf exAgain = some 0 := by decide +kernel

/-- the hypotheses are satisfiable (garbage in the raw stack) -/
example : ∃ r, parseDoc 16 runPad (List.replicate 16 (some (.uint 3))) Doc.fresh
    [0x5B, 0x22, 0x61, 0x5C, 0x6E, 0x22, 0x2C, 0x7B, 0x7D, 0x2C, 0x6E, 0x75, 0x6C, 0x6C, 0x5D, 0x20] = .ok r :=
  C02_no_fault 16 (by decide) (by decide) runPad _ _ Doc.fresh (by decide) (by decide) (by decide) (by decide)
    (by decide)

end Sonic.Props.C02
