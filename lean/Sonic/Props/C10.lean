import Sonic.Model.OnDemand
import Sonic.Proofs.OnDemandAgree
import Sonic.Proofs.OnDemandEscBits
import Sonic.Proofs.OnDemandParse

/-!
# C10 — On-demand lookup returns exactly what full parsing plus pointer lookup returns

Model: `Sonic.Model.OnDemand` (see `Sonic/Props/C11.lean` for the memory model).  Reference:
`Sonic.Spec.Json.parse` (RFC 8259 reader, members kept in textual order) composed with `Sonic.Spec.Pointer.at`
(first matching member; negative index, index ≥ size, step into a value of the wrong kind → `none`).

Sequential references used by the component theorems (defined in `Sonic/Proofs/OnDemand*.lean`, all byte-at-a-time,
no notion of vector blocks, hence no dependence on the alignment of the text to 16/32/64-byte blocks):
* `scanL esc l`  — index in `l` of the first quote that is not escaped (`esc` = the current byte is escaped, i.e.
  preceded by an odd-length run of backslashes);
* `contScan left right ⟨ins, esc, depth⟩ l` — index in `l` of the `right` brace that closes the container
  (`.inl k`), counting braces only outside strings, or the final state (`.inr s`) if `l` ends first.

The source modelled is the CURRENT tree, which contains the fix for the defect found while writing this model
(`GetArrayElem` used to step over the `]` of an EMPTY array and take the `,` of the enclosing container:
`[[],5]` with path `[0,1]` returned `5`, `{"a":[],"b":[7]}` with path `["a",1]` returned `"b"`).
-/

namespace Sonic.Props.C10
open Sonic.Model.OnDemand Sonic.Spec Sonic.Spec.Json Sonic.Spec.Pointer Sonic.Proofs.OnDemand

attribute [local instance] exceptDecEq

/-! ## components -/

/-- **`GetEscaped<N>`: the literal `uint64_t` bit trick equals the sequential meaning used by the model**, for
    EVERY block size `1 ≤ N ≤ 64` (the code uses 16, 32, 64), every incoming `prev_escaped` and every backslash
    mask of `N` lanes: `getEscapedBits N prev bs` is the C++ expression
    `(((b << 1) | ODD) - b) ^ ODD` with `b = bs & ~prev`, … transcribed on `Nat` with `% 2^64`
    (`Sonic/Model/OnDemandBits.lean`; `getEscapedBV` is the same on `BitVec 64`).  Its first result, restricted to
    the `N` lanes, is the mask "lane `i` is preceded by an odd-length run of backslashes (continuing the previous
    block if `prev`)"; its second result is the outgoing carry.  Proof: a carry-chain invariant of the
    subtraction (`carry_inv`), no enumeration. -/
theorem C10_getEscaped (N : Nat) (hN1 : 1 ≤ N) (hN : N ≤ 64) (prev : Bool) (bs : Mask) (hl : bs.length = N) :
    (getEscapedBits N prev.toNat (Mask.toNat bs)).1 % 2 ^ N = Mask.toNat (getEscaped prev bs).1 ∧
    (getEscapedBits N prev.toNat (Mask.toNat bs)).2 = (getEscaped prev bs).2.toNat :=
  getEscapedBits_eq N hN1 hN prev bs hl

/-- the same statement on `BitVec 64`, bit by bit -/
theorem C10_getEscaped_bits (N : Nat) (hN1 : 1 ≤ N) (hN : N ≤ 64) (prev : Bool) (bs : Mask) (hl : bs.length = N) :
    (∀ i, i < N → (getEscapedBV N (BitVec.ofNat 64 prev.toNat) (BitVec.ofNat 64 (Mask.toNat bs))).1.getLsbD i =
        (getEscaped prev bs).1[i]?.getD false) ∧
    (getEscapedBV N (BitVec.ofNat 64 prev.toNat) (BitVec.ofNat 64 (Mask.toNat bs))).2 =
        BitVec.ofNat 64 (getEscaped prev bs).2.toNat :=
  getEscapedBV_eq N hN1 hN prev bs hl

/-- `\\\"` + `\` at the end of a 16-lane block: backslashes at lanes 0,1,2 and 15 — lanes 1 and 3 are escaped
    (the quote at lane 3 is), and the trailing backslash escapes the first byte of the next block -/
example : getEscapedBits 16 0 0b1000000000000111 = (0b10000000000001010, 1) ∧
    getEscaped false [true, true, true, false, false, false, false, false, false, false, false, false, false,
      false, false, true] =
      ([false, true, false, true, false, false, false, false, false, false, false, false, false, false, false,
        false], true) := by decide +kernel

/-- **`SkipString` = the sequential scan**, for every vector width `W > 0` and every entry position: the result is
    non-zero exactly when the sequential scan finds a closing quote (at index `i` of the remaining bytes), `pos` is
    then just after it; the result 1 (`kNormal`) guarantees that no backslash precedes the closing quote (the flag
    2 `kEscaped` is conservative); if the scan finds no closing quote the result is 0 (`kUnclosed`). -/
theorem C10_skipString_seq (W : Nat) (hW : 0 < W) (data : List Nat) (pos : Nat) (hle : pos ≤ data.length) :
    ∃ r p', skipString W data pos = .ok (r, p') ∧
      (∀ i, scanL false (data.drop pos) = some i →
        r ≠ 0 ∧ p' = pos + i + 1 ∧ (r = 1 → ∀ j, j < i → data[pos + j]? ≠ some 0x5C)) ∧
      (scanL false (data.drop pos) = none → r = 0) := by
  obtain ⟨r, p', e, h1, h2⟩ := skipString_seq hW data pos hle
  exact ⟨r, p', e, fun i hi => ⟨(h1 i hi).1, (h1 i hi).2.1, fun hr => ((h1 i hi).2.2 hr).2⟩, h2⟩

/-- `a\"b"` inside a 40-byte buffer: the escaped quote is skipped; closing quote at index 4, flag 2 -/
example : skipString 32 ([0x61, 0x5C, 0x22, 0x62, 0x22] ++ List.replicate 35 0x20) 0 = .ok (2, 5) ∧
    scanL false ([0x61, 0x5C, 0x22, 0x62, 0x22] ++ List.replicate 35 0x20) = some 4 := by decide +kernel

/-- **`SkipContainer` = the sequential depth counter**, carries between 64-byte blocks and the zero-padded tail
    included: started just after the opening brace it returns `true` with `pos` just after the closing brace found
    by the sequential scan, and `false` if the sequential scan finds none. -/
theorem C10_skipContainer_seq (data : List Nat) (left right : Nat) (hlr : left ≠ right) (hrq : right ≠ 0x22)
    (hlq : left ≠ 0x22) (hr0 : right ≠ 0) (pos : Nat) (hle : pos ≤ data.length) :
    match contScan left right ⟨false, false, 0⟩ (data.drop pos) with
    | .inl k => skipContainer data left right pos = .ok (true, pos + k + 1)
    | .inr _ => ∃ p', skipContainer data left right pos = .ok (false, p') :=
  skipContainer_seq data left right hlr hrq hlq hr0 pos hle

/-- `{"c":"]}"}],…` from just after the `{`: the braces inside the string are not counted -/
example : skipContainer [123, 34, 99, 34, 58, 34, 93, 125, 34, 125, 93, 44] 0x7B 0x7D 1 = .ok (true, 10) ∧
    contScan 0x7B 0x7D ⟨false, false, 0⟩ [34, 99, 34, 58, 34, 93, 125, 34, 125, 93, 44] = .inl 8 := by
  decide +kernel

/-- `SkipSpaceSafe` returns the first non-whitespace byte at or after `pos`, whatever the cached block says, as
    long as the cache is the one the scanner itself computed (`CValid`) -/
theorem C10_skipSpaceSafe_exact (data : List Nat) (cache : Cache) (pos q : Nat) (hq : IsFirstNS data pos q)
    (hI : CInv data cache pos) (hV : CValid data cache) :
    ∃ cache', skipSpaceSafe data cache pos = .ok (data[q]?.getD 0, q + 1, cache') ∧ CInv data cache' (q + 1) ∧
      CValid data cache' := skipSpaceSafe_found data cache pos q hq hI hV

/-- `GetNextToken` stops AT the first byte that is one of the tokens (or returns 0 with `pos = len`) -/
theorem C10_getNextToken_exact (W : Nat) (hW : 0 < W) (data toks : List Nat) (pos : Nat) :
    (∀ q, IsFirstTok data toks pos q → getNextToken W data toks pos = .ok (data[q]?.getD 0, q)) ∧
    (NoTok data toks pos → pos ≤ data.length → getNextToken W data toks pos = .ok (0, data.length)) :=
  ⟨fun q h => getNextToken_found hW data toks pos q h, fun h hle => getNextToken_none hW data toks pos h hle⟩

/-- **`SkipOne` on a well-formed value.** If `parseAt`-style parsing finds the value `v` in `[p, e)`, only
    whitespace lies between `pos` and `p`, and `v` is followed as in a valid text (whitespace, then `,` `]` `}` or
    the end of the input), then `SkipOne` returns `start = p` and stops exactly at `e` — except for a number,
    where it stops at the following separator (or the end of the input): `e ≤ stop` and only whitespace lies in
    `[e, stop)`. -/
theorem C10_skipOne_value (W : Nat) (hW : 0 < W) (data : List Nat) (f p : Nat) (v : JVal) (e : Nat)
    (hv : parseValue data f p = .ok (v, e)) (hfol : Follow data e) (cache : Cache) (pos : Nat)
    (hns : IsFirstNS data pos p) (hI : CInv data cache pos) (hV : CValid data cache) :
    ∃ stop, skipOne W data cache pos = .ok (.ok p stop) ∧ e ≤ stop ∧ stop ≤ data.length ∧ WsRange data e stop ∧
      ((∀ n, v ≠ .num n) → stop = e) := skipOne_value hW hv hfol hns hI hV

/-- ` [1 , {"k":"v"}]`: `SkipOne` from 0 skips the blank, returns start 1 and stops at the end, 16 -/
example : skipOne 16 [32, 91, 49, 32, 44, 32, 123, 34, 107, 34, 58, 34, 118, 34, 125, 93] Cache.init 0 =
    .ok (.ok 1 16) := by decide +kernel

/-! ## the main theorem -/

/-- the error codes `GetOnDemand` reports on a valid text whose path does not resolve -/
def IsLookupError (code : Nat) : Prop :=
  code = Sonic.Gen.kParseErrorUnknownObjKey ∨ code = Sonic.Gen.kParseErrorArrIndexOutOfRange ∨
    code = Sonic.Gen.kParseErrorMismatchType ∨ code = Sonic.Gen.kParseErrorInvalidChar

/-- **C10.** For every vector width `0 < W ≤ 32`, every VALID JSON text `data` (`Spec.Json.parse data = .ok v`;
    any shape, any whitespace, any alignment to blocks — none of the references knows about blocks), every
    path and every content of the stale part of the key buffer:

    * if the path resolves in the parsed document to `u` (`Spec.Pointer.at v path = some u`: first matching member
      for duplicate keys, keys compared after unescaping), `GetOnDemand` succeeds; its slice `[start, stop)` lies
      inside the input, the reference parser finds exactly the value `u` at `start`
      (`parseAt data start = .ok (u, e)`), the value ends inside the slice (`e ≤ stop`) and the rest of the slice
      `[e, stop)` is whitespace (it is empty unless `u` is a number: `SkipNumber` runs to the next separator);
      the reported offset is `stop`;
    * if the path does not resolve (missing key, index ≥ size, negative index, step into a value of the wrong
      kind), `GetOnDemand` reports one of the errors `UnknownObjKey`, `ArrIndexOutOfRange`, `MismatchType`,
      `InvalidChar`, with an empty target — never a value from elsewhere in the text.

    Since the two cases are exclusive, success ⇔ the path resolves. -/
theorem C10_agree (W : Nat) (hW : 0 < W) (hW32 : W ≤ 32) (data : List Nat) (hd : ∀ x ∈ data, x < 256)
    (hlen : data.length < 2 ^ 64) (junk : Nat → Nat → Nat) (hj : ∀ s i, junk s i < 256) (path : List Step)
    (v : JVal) (hv : parse data = .ok v) :
    (∀ u, Pointer.at v path = some u →
      ∃ start stop e, getOnDemand W data junk path = .ok (.ok start stop stop) ∧
        parseAt data start = .ok (u, e) ∧ start < e ∧ e ≤ stop ∧ stop ≤ data.length ∧ WsRange data e stop ∧
        ((∀ n, u ≠ .num n) → stop = e)) ∧
    (Pointer.at v path = none →
      ∃ code off, getOnDemand W data junk path = .ok (.err code off 0) ∧ IsLookupError code) :=
  getOnDemand_agree hW hW32 data hd hlen junk hj path v hv

/-- success ⇔ the path resolves -/
theorem C10_success_iff (W : Nat) (hW : 0 < W) (hW32 : W ≤ 32) (data : List Nat) (hd : ∀ x ∈ data, x < 256)
    (hlen : data.length < 2 ^ 64) (junk : Nat → Nat → Nat) (hj : ∀ s i, junk s i < 256) (path : List Step)
    (v : JVal) (hv : parse data = .ok v) :
    (∃ start stop off, getOnDemand W data junk path = .ok (.ok start stop off)) ↔
      (∃ u, Pointer.at v path = some u) := by
  obtain ⟨h1, h2⟩ := C10_agree W hW hW32 data hd hlen junk hj path v hv
  constructor
  · intro ⟨s, t, o, e⟩
    cases hat : Pointer.at v path with
    | some u => exact ⟨u, rfl⟩
    | none =>
      obtain ⟨c, off, e2, _⟩ := h2 hat
      rw [e] at e2; cases e2
  · intro ⟨u, hu⟩
    obtain ⟨s, t, _, e, _⟩ := h1 u hu
    exact ⟨s, t, t, e⟩

/-! ## `Document::ParseOnDemand` = `GetOnDemand` followed by the full `Parse` of the target slice -/

section pod
open Sonic.Model.Parse (Doc Result Node)
open Sonic.Proofs.Parse (ExpSmall Balanced expSmall_of_check)

theorem isLookupError_iff (code : Nat) : IsLookupError code ↔ ErrCode code := Iff.rfl

/-- **C10, composed (`ParseOnDemand`).**  Model: `Sonic.Model.OnDemand.parseOnDemand` (`Model/ParseOnDemand.lean`) =
    `destroyDom`, `GetOnDemand(json, path, target)`, and — unless that failed — `parseImpl(target.data(), target.size())`,
    i.e. the full parser model `Model.Parse.parseDoc` on the slice `[start, stop)`, copied into its own `size + 64` byte
    buffer.  For every vector width `0 < W ≤ 32` (the same `W` for the scanner and for the parser's string decoder),
    every VALID JSON text `data` of bytes (`Spec.Json.parse data = .ok v`, `data.length + 4 < 2^32`) whose number
    tokens satisfy `ExpSmall` (written exponent below 100000 or token of at most 9600 bytes; the tokens of the slice are
    tokens of `data`: `Proofs/OnDemandParse.lean`, `expSmall_slice`), every path, every content of the stale part of
    the key buffer (`junk`), of the 61 padding bytes (`pad`) and of the freshly allocated node stack (`raw n` for a
    capacity of `n` slots), and every previous document `doc`:

    * (a) if the path resolves in the parsed document to `u`, the composed model returns without fault with
      `err = 0`, the reported offset is the length of the slice, and the document's value is **exactly `u`**
      (`r.doc.value = some u`: strings read from the document's own final buffer); the heap ledger stays balanced;
    * (b) if the path does not resolve, it reports one of the lookup errors `UnknownObjKey`, `ArrIndexOutOfRange`,
      `MismatchType`, `InvalidChar` (`IsLookupError`) and the document is null. -/
theorem C10_parse_on_demand (W : Nat) (hW : 0 < W) (hW32 : W ≤ 32) (data : List Nat) (hd : ∀ x ∈ data, x < 256)
    (hL : data.length + 4 < 2 ^ 32) (hexp : ExpSmall data) (junk : Nat → Nat → Nat) (hj : ∀ s i, junk s i < 256)
    (pad : List Nat) (hpad : ∀ x ∈ pad, x < 256) (hpl : pad.length = 61) (raw : Nat → List (Option Node))
    (hraw : ∀ n, (raw n).length = n) (doc : Doc) (path : List Step) (v : JVal) (hv : parse data = .ok v) :
    (∀ u, Pointer.at v path = some u →
      ∃ r start stop, getOnDemand W data junk path = .ok (.ok start stop stop) ∧
        parseOnDemand W junk pad raw doc data path = .ok r ∧ r.err = 0 ∧ r.off = stop - start ∧
        r.doc.value = some u ∧ (Balanced doc → Balanced r.doc)) ∧
    (Pointer.at v path = none →
      ∃ r, parseOnDemand W junk pad raw doc data path = .ok r ∧ IsLookupError r.err ∧ r.doc.root = .null ∧
        r.doc.value = some .null) :=
  parseOnDemand_spec hW hW32 data hd hL hexp junk hj pad hpad hpl raw hraw doc path v hv

/-- **`ParseOnDemand` does not depend on the vector width** (C15 style: `W = 16` for the SSE build, `W = 32` for the
    AVX2 build), nor on the stale key-buffer bytes, the padding, the raw node stack or the previous document: either
    both runs succeed with the same value, or both report a lookup error and leave a null document. -/
theorem C10_parse_on_demand_width (W₁ W₂ : Nat) (h1 : 0 < W₁) (h1' : W₁ ≤ 32) (h2 : 0 < W₂) (h2' : W₂ ≤ 32)
    (data : List Nat) (hd : ∀ x ∈ data, x < 256) (hL : data.length + 4 < 2 ^ 32) (hexp : ExpSmall data)
    (junk₁ junk₂ : Nat → Nat → Nat) (hj₁ : ∀ s i, junk₁ s i < 256) (hj₂ : ∀ s i, junk₂ s i < 256)
    (pad₁ pad₂ : List Nat) (hpad₁ : ∀ x ∈ pad₁, x < 256) (hpl₁ : pad₁.length = 61) (hpad₂ : ∀ x ∈ pad₂, x < 256)
    (hpl₂ : pad₂.length = 61) (raw₁ raw₂ : Nat → List (Option Node)) (hraw₁ : ∀ n, (raw₁ n).length = n)
    (hraw₂ : ∀ n, (raw₂ n).length = n) (doc₁ doc₂ : Doc) (path : List Step) (v : JVal) (hv : parse data = .ok v) :
    ∃ r₁ r₂, parseOnDemand W₁ junk₁ pad₁ raw₁ doc₁ data path = .ok r₁ ∧
      parseOnDemand W₂ junk₂ pad₂ raw₂ doc₂ data path = .ok r₂ ∧ r₁.doc.value = r₂.doc.value ∧
      ((r₁.err = 0 ∧ r₂.err = 0 ∧ r₁.doc.value = Pointer.at v path) ∨
       (IsLookupError r₁.err ∧ IsLookupError r₂.err ∧ r₁.doc.root = .null ∧ r₂.doc.root = .null ∧
          Pointer.at v path = none)) := by
  obtain ⟨a1, b1⟩ := C10_parse_on_demand W₁ h1 h1' data hd hL hexp junk₁ hj₁ pad₁ hpad₁ hpl₁ raw₁ hraw₁ doc₁ path v hv
  obtain ⟨a2, b2⟩ := C10_parse_on_demand W₂ h2 h2' data hd hL hexp junk₂ hj₂ pad₂ hpad₂ hpl₂ raw₂ hraw₂ doc₂ path v hv
  cases hat : Pointer.at v path with
  | some u =>
    obtain ⟨r1, s1, t1, g1, e1, z1, o1, v1, _⟩ := a1 u hat
    obtain ⟨r2, s2, t2, g2, e2, z2, o2, v2, _⟩ := a2 u hat
    exact ⟨r1, r2, e1, e2, by rw [v1, v2], Or.inl ⟨z1, z2, v1⟩⟩
  | none =>
    obtain ⟨r1, e1, c1, n1, v1⟩ := b1 hat
    obtain ⟨r2, e2, c2, n2, v2⟩ := b2 hat
    exact ⟨r1, r2, e1, e2, by rw [v1, v2], Or.inr ⟨c1, c2, n1, n2, rfl⟩⟩

end pod

/-! ## non-vacuity -/

private def J : Nat → Nat → Nat := fun _ _ => 0

/-- `{"a\"b":[1,{"c":"]}"}],"d":2}` is valid, the path `["a\"b", 1, "c"]` resolves to the string `]}`, and
    `GetOnDemand` returns its slice `[16, 20)` -/
example :
    let data := [123, 34, 97, 92, 34, 98, 34, 58, 91, 49, 44, 123, 34, 99, 34, 58, 34, 93, 125, 34, 125, 93, 44,
      34, 100, 34, 58, 50, 125]
    (∃ v, parse data = .ok v ∧ Pointer.at v [.key [97, 34, 98], .idx 1, .key [99]] = some (.str [93, 125])) ∧
    getOnDemand 32 data J [.key [97, 34, 98], .idx 1, .key [99]] = .ok (.ok 16 20 20) ∧
    parseAt data 16 = .ok (.str [93, 125], 20) := by
  refine ⟨⟨.obj [([97, 34, 98], .arr [.num (.uint 1), .obj [([99], .str [93, 125])]]), ([100], .num (.uint 2))],
    by rfl, by rfl⟩, by decide +kernel, by rfl⟩

/-- an escaped key spelled `"a"` matches the path `a`; the duplicate key `a` is ignored (first match);
    a number's slice runs to the next separator: `{"a": 7 ,"a":8}` → `[10, 12)` = `7 ` -/
example :
    let data := [123, 34, 92, 117, 48, 48, 54, 49, 34, 58, 55, 32, 44, 34, 97, 34, 58, 56, 125]
    getOnDemand 16 data J [.key [97]] = .ok (.ok 10 12 12) ∧
    parseAt data 10 = .ok (.num (.uint 7), 11) := by
  refine ⟨by decide +kernel, by rfl⟩

/-- paths that do not resolve: missing key (8), index = size (9), index into an empty array (9, the fixed
    defect), negative index (2), key step into an array (10) -/
example :
    getOnDemand 32 [123, 34, 97, 34, 58, 49, 125] J [.key [98]] = .ok (.err 8 6 0) ∧
    getOnDemand 32 [91, 49, 44, 50, 93] J [.idx 2] = .ok (.err 9 4 0) ∧
    getOnDemand 32 [91, 91, 93, 44, 53, 93] J [.idx 0, .idx 1] = .ok (.err 9 3 0) ∧
    getOnDemand 32 [91, 49, 93] J [.idx (-1)] = .ok (.err 2 1 0) ∧
    getOnDemand 32 [91, 49, 93] J [.key [97]] = .ok (.err 10 0 0) := by decide +kernel

/-- `ParseOnDemand` on `{"a":[1,{"b":"x\n"}],"c":2.5}`: path `a/1/b` gives the string `x<LF>` (both widths), path `c`
    the double 2.5, the empty path the whole document; `a/2` and `d` do not resolve (`ArrIndexOutOfRange` 9,
    `UnknownObjKey` 8) -/
def exPod : List Nat :=
  [0x7B, 0x22, 0x61, 0x22, 0x3A, 0x5B, 0x31, 0x2C, 0x7B, 0x22, 0x62, 0x22, 0x3A, 0x22, 0x78, 0x5C, 0x6E, 0x22, 0x7D,
   0x5D, 0x2C, 0x22, 0x63, 0x22, 0x3A, 0x32, 0x2E, 0x35, 0x7D]

private def podRun (W : Nat) (path : List Step) : String :=
  podStr (parseOnDemand W J Sonic.Model.Parse.runPad (fun n => List.replicate n none) Sonic.Model.Parse.Doc.fresh
    exPod path)

example :
    podRun 32 [.key [0x61], .idx 1, .key [0x62]] = "ok tree=s780a" ∧
    podRun 16 [.key [0x61], .idx 1, .key [0x62]] = "ok tree=s780a" ∧
    podRun 32 [.key [0x63]] = "ok tree=d4612811918334230528" ∧
    podRun 32 [] = "ok tree={k61:[u1,{k62:s780a}],k63:d4612811918334230528}" ∧
    podRun 32 [.key [0x61], .idx 2] = "err=9" ∧ podRun 16 [.key [0x64]] = "err=8" ∧
    (match parse exPod with
      | .ok v => (Pointer.at v [.key [0x61], .idx 1, .key [0x62]]).map JVal.show
      | .error _ => none) = some "s780a" := by decide +kernel

/-- the hypotheses of `C10_parse_on_demand` are satisfiable (`exPod`, path `a/1/b`) and the conclusion (a) applies -/
example : ∃ r, parseOnDemand 32 J Sonic.Model.Parse.runPad (fun n => List.replicate n none)
      Sonic.Model.Parse.Doc.fresh exPod [.key [0x61], .idx 1, .key [0x62]] = .ok r ∧ r.err = 0 ∧
    r.doc.value = some (.str [0x78, 0x0A]) := by
  have hv : parse exPod = .ok (.obj [([0x61], .arr [.num (.uint 1), .obj [([0x62], .str [0x78, 0x0A])]]),
      ([0x63], .num (.real 4612811918334230528))]) := by rfl
  obtain ⟨h, _⟩ := C10_parse_on_demand 32 (by decide) (by decide) exPod (by decide) (by decide)
    (Sonic.Proofs.Parse.expSmall_of_check _ (by decide +kernel)) J (fun _ _ => (by show (0 : Nat) < 256; decide))
    Sonic.Model.Parse.runPad (by decide) (by decide) (fun n => List.replicate n none) (fun n => by simp)
    Sonic.Model.Parse.Doc.fresh [.key [0x61], .idx 1, .key [0x62]] _ hv
  obtain ⟨r, _, _, _, hr, he, _, hval, _⟩ := h (.str [0x78, 0x0A]) (by rfl)
  exact ⟨r, hr, he, hval⟩

end Sonic.Props.C10
