import Sonic.Model.OnDemand
import Sonic.Proofs.OnDemandAgree
import Sonic.Proofs.OnDemandEscBits

/-!
# C10 — On-demand lookup returns exactly what full parsing plus pointer lookup returns

Model: `Sonic.Model.OnDemand` (see `Sonic/Props/C11.lean` for the memory model).  Reference:
`Sonic.Spec.Json.parse` (RFC 8259 reader, members kept in textual order) composed with `Sonic.Spec.Pointer.at`
(first matching member; negative index, index ≥ size, step into a value of the wrong kind → `none`).

Sequential references used by the component theorems (defined in `Sonic/Proofs/OnDemand*.lean`, all byte-at-a-time,
no notion of vector blocks, hence no dependence on the alignment of the text to 16/32/64-byte blocks):
* `scanL esc l`  — index in `l` of the first quote that is not escaped (`esc` = the current byte is escaped, i.e.
  preceded by an odd-length run of backslashes);
* `contScan left right ⟨ins, esc, depth⟩ l` — index in `l` of the `right` brace that closes the container
  (`.inl k`), counting braces only outside strings, or the final state (`.inr s`) if `l` ends first.

The source modelled is the CURRENT tree, which contains the fix for the defect found while writing this model
(`GetArrayElem` used to step over the `]` of an EMPTY array and take the `,` of the enclosing container:
`[[],5]` with path `[0,1]` returned `5`, `{"a":[],"b":[7]}` with path `["a",1]` returned `"b"`).
-/

namespace Sonic.Props.C10
open Sonic.Model.OnDemand Sonic.Spec Sonic.Spec.Json Sonic.Spec.Pointer Sonic.Proofs.OnDemand

attribute [local instance] exceptDecEq

/-! ## components -/

/-- **`GetEscaped<N>`: the literal `uint64_t` bit trick equals the sequential meaning used by the model**, for
    EVERY block size `1 ≤ N ≤ 64` (the code uses 16, 32, 64), every incoming `prev_escaped` and every backslash
    mask of `N` lanes: `getEscapedBits N prev bs` is the C++ expression
    `(((b << 1) | ODD) - b) ^ ODD` with `b = bs & ~prev`, … transcribed on `Nat` with `% 2^64`
    (`Sonic/Model/OnDemandBits.lean`; `getEscapedBV` is the same on `BitVec 64`).  Its first result, restricted to
    the `N` lanes, is the mask "lane `i` is preceded by an odd-length run of backslashes (continuing the previous
    block if `prev`)"; its second result is the outgoing carry.  Proof: a carry-chain invariant of the
    subtraction (`carry_inv`), no enumeration. -/
theorem C10_getEscaped (N : Nat) (hN1 : 1 ≤ N) (hN : N ≤ 64) (prev : Bool) (bs : Mask) (hl : bs.length = N) :
    (getEscapedBits N prev.toNat (Mask.toNat bs)).1 % 2 ^ N = Mask.toNat (getEscaped prev bs).1 ∧
    (getEscapedBits N prev.toNat (Mask.toNat bs)).2 = (getEscaped prev bs).2.toNat :=
  getEscapedBits_eq N hN1 hN prev bs hl

/-- the same statement on `BitVec 64`, bit by bit -/
theorem C10_getEscaped_bits (N : Nat) (hN1 : 1 ≤ N) (hN : N ≤ 64) (prev : Bool) (bs : Mask) (hl : bs.length = N) :
    (∀ i, i < N → (getEscapedBV N (BitVec.ofNat 64 prev.toNat) (BitVec.ofNat 64 (Mask.toNat bs))).1.getLsbD i =
        (getEscaped prev bs).1[i]?.getD false) ∧
    (getEscapedBV N (BitVec.ofNat 64 prev.toNat) (BitVec.ofNat 64 (Mask.toNat bs))).2 =
        BitVec.ofNat 64 (getEscaped prev bs).2.toNat :=
  getEscapedBV_eq N hN1 hN prev bs hl

/-- `\\\"` + `\` at the end of a 16-lane block: backslashes at lanes 0,1,2 and 15 — lanes 1 and 3 are escaped
    (the quote at lane 3 is), and the trailing backslash escapes the first byte of the next block -/
example : getEscapedBits 16 0 0b1000000000000111 = (0b10000000000001010, 1) ∧
    getEscaped false [true, true, true, false, false, false, false, false, false, false, false, false, false,
      false, false, true] =
      ([false, true, false, true, false, false, false, false, false, false, false, false, false, false, false,
        false], true) := by decide +kernel

/-- **`SkipString` = the sequential scan**, for every vector width `W > 0` and every entry position: the result is
    non-zero exactly when the sequential scan finds a closing quote (at index `i` of the remaining bytes), `pos` is
    then just after it; the result 1 (`kNormal`) guarantees that no backslash precedes the closing quote (the flag
    2 `kEscaped` is conservative); if the scan finds no closing quote the result is 0 (`kUnclosed`). -/
theorem C10_skipString_seq (W : Nat) (hW : 0 < W) (data : List Nat) (pos : Nat) (hle : pos ≤ data.length) :
    ∃ r p', skipString W data pos = .ok (r, p') ∧
      (∀ i, scanL false (data.drop pos) = some i →
        r ≠ 0 ∧ p' = pos + i + 1 ∧ (r = 1 → ∀ j, j < i → data[pos + j]? ≠ some 0x5C)) ∧
      (scanL false (data.drop pos) = none → r = 0) := by
  obtain ⟨r, p', e, h1, h2⟩ := skipString_seq hW data pos hle
  exact ⟨r, p', e, fun i hi => ⟨(h1 i hi).1, (h1 i hi).2.1, fun hr => ((h1 i hi).2.2 hr).2⟩, h2⟩

/-- `a\"b"` inside a 40-byte buffer: the escaped quote is skipped; closing quote at index 4, flag 2 -/
example : skipString 32 ([0x61, 0x5C, 0x22, 0x62, 0x22] ++ List.replicate 35 0x20) 0 = .ok (2, 5) ∧
    scanL false ([0x61, 0x5C, 0x22, 0x62, 0x22] ++ List.replicate 35 0x20) = some 4 := by decide +kernel

/-- **`SkipContainer` = the sequential depth counter**, carries between 64-byte blocks and the zero-padded tail
    included: started just after the opening brace it returns `true` with `pos` just after the closing brace found
    by the sequential scan, and `false` if the sequential scan finds none. -/
theorem C10_skipContainer_seq (data : List Nat) (left right : Nat) (hlr : left ≠ right) (hrq : right ≠ 0x22)
    (hlq : left ≠ 0x22) (hr0 : right ≠ 0) (pos : Nat) (hle : pos ≤ data.length) :
    match contScan left right ⟨false, false, 0⟩ (data.drop pos) with
    | .inl k => skipContainer data left right pos = .ok (true, pos + k + 1)
    | .inr _ => ∃ p', skipContainer data left right pos = .ok (false, p') :=
  skipContainer_seq data left right hlr hrq hlq hr0 pos hle

/-- `{"c":"]}"}],…` from just after the `{`: the braces inside the string are not counted -/
example : skipContainer [123, 34, 99, 34, 58, 34, 93, 125, 34, 125, 93, 44] 0x7B 0x7D 1 = .ok (true, 10) ∧
    contScan 0x7B 0x7D ⟨false, false, 0⟩ [34, 99, 34, 58, 34, 93, 125, 34, 125, 93, 44] = .inl 8 := by
  decide +kernel

/-- `SkipSpaceSafe` returns the first non-whitespace byte at or after `pos`, whatever the cached block says, as
    long as the cache is the one the scanner itself computed (`CValid`) -/
theorem C10_skipSpaceSafe_exact (data : List Nat) (cache : Cache) (pos q : Nat) (hq : IsFirstNS data pos q)
    (hI : CInv data cache pos) (hV : CValid data cache) :
    ∃ cache', skipSpaceSafe data cache pos = .ok (data[q]?.getD 0, q + 1, cache') ∧ CInv data cache' (q + 1) ∧
      CValid data cache' := skipSpaceSafe_found data cache pos q hq hI hV

/-- `GetNextToken` stops AT the first byte that is one of the tokens (or returns 0 with `pos = len`) -/
theorem C10_getNextToken_exact (W : Nat) (hW : 0 < W) (data toks : List Nat) (pos : Nat) :
    (∀ q, IsFirstTok data toks pos q → getNextToken W data toks pos = .ok (data[q]?.getD 0, q)) ∧
    (NoTok data toks pos → pos ≤ data.length → getNextToken W data toks pos = .ok (0, data.length)) :=
  ⟨fun q h => getNextToken_found hW data toks pos q h, fun h hle => getNextToken_none hW data toks pos h hle⟩

/-- **`SkipOne` on a well-formed value.** If `parseAt`-style parsing finds the value `v` in `[p, e)`, only
    whitespace lies between `pos` and `p`, and `v` is followed as in a valid text (whitespace, then `,` `]` `}` or
    the end of the input), then `SkipOne` returns `start = p` and stops exactly at `e` — except for a number,
    where it stops at the following separator (or the end of the input): `e ≤ stop` and only whitespace lies in
    `[e, stop)`. -/
theorem C10_skipOne_value (W : Nat) (hW : 0 < W) (data : List Nat) (f p : Nat) (v : JVal) (e : Nat)
    (hv : parseValue data f p = .ok (v, e)) (hfol : Follow data e) (cache : Cache) (pos : Nat)
    (hns : IsFirstNS data pos p) (hI : CInv data cache pos) (hV : CValid data cache) :
    ∃ stop, skipOne W data cache pos = .ok (.ok p stop) ∧ e ≤ stop ∧ stop ≤ data.length ∧ WsRange data e stop ∧
      ((∀ n, v ≠ .num n) → stop = e) := skipOne_value hW hv hfol hns hI hV

/-- ` [1 , {"k":"v"}]`: `SkipOne` from 0 skips the blank, returns start 1 and stops at the end, 16 -/
example : skipOne 16 [32, 91, 49, 32, 44, 32, 123, 34, 107, 34, 58, 34, 118, 34, 125, 93] Cache.init 0 =
    .ok (.ok 1 16) := by decide +kernel

/-! ## the main theorem -/

/-- the error codes `GetOnDemand` reports on a valid text whose path does not resolve -/
def IsLookupError (code : Nat) : Prop :=
  code = Sonic.Gen.kParseErrorUnknownObjKey ∨ code = Sonic.Gen.kParseErrorArrIndexOutOfRange ∨
    code = Sonic.Gen.kParseErrorMismatchType ∨ code = Sonic.Gen.kParseErrorInvalidChar

/-- **C10.** For every vector width `0 < W ≤ 32`, every VALID JSON text `data` (`Spec.Json.parse data = .ok v`;
    any shape, any whitespace, any alignment to blocks — none of the references knows about blocks), every
    path and every content of the stale part of the key buffer:

    * if the path resolves in the parsed document to `u` (`Spec.Pointer.at v path = some u`: first matching member
      for duplicate keys, keys compared after unescaping), `GetOnDemand` succeeds; its slice `[start, stop)` lies
      inside the input, the reference parser finds exactly the value `u` at `start`
      (`parseAt data start = .ok (u, e)`), the value ends inside the slice (`e ≤ stop`) and the rest of the slice
      `[e, stop)` is whitespace (it is empty unless `u` is a number: `SkipNumber` runs to the next separator);
      the reported offset is `stop`;
    * if the path does not resolve (missing key, index ≥ size, negative index, step into a value of the wrong
      kind), `GetOnDemand` reports one of the errors `UnknownObjKey`, `ArrIndexOutOfRange`, `MismatchType`,
      `InvalidChar`, with an empty target — never a value from elsewhere in the text.

    Since the two cases are exclusive, success ⇔ the path resolves. -/
theorem C10_agree (W : Nat) (hW : 0 < W) (hW32 : W ≤ 32) (data : List Nat) (hd : ∀ x ∈ data, x < 256)
    (hlen : data.length < 2 ^ 64) (junk : Nat → Nat → Nat) (hj : ∀ s i, junk s i < 256) (path : List Step)
    (v : JVal) (hv : parse data = .ok v) :
    (∀ u, Pointer.at v path = some u →
      ∃ start stop e, getOnDemand W data junk path = .ok (.ok start stop stop) ∧
        parseAt data start = .ok (u, e) ∧ start < e ∧ e ≤ stop ∧ stop ≤ data.length ∧ WsRange data e stop ∧
        ((∀ n, u ≠ .num n) → stop = e)) ∧
    (Pointer.at v path = none →
      ∃ code off, getOnDemand W data junk path = .ok (.err code off 0) ∧ IsLookupError code) :=
  getOnDemand_agree hW hW32 data hd hlen junk hj path v hv

/-- success ⇔ the path resolves -/
theorem C10_success_iff (W : Nat) (hW : 0 < W) (hW32 : W ≤ 32) (data : List Nat) (hd : ∀ x ∈ data, x < 256)
    (hlen : data.length < 2 ^ 64) (junk : Nat → Nat → Nat) (hj : ∀ s i, junk s i < 256) (path : List Step)
    (v : JVal) (hv : parse data = .ok v) :
    (∃ start stop off, getOnDemand W data junk path = .ok (.ok start stop off)) ↔
      (∃ u, Pointer.at v path = some u) := by
  obtain ⟨h1, h2⟩ := C10_agree W hW hW32 data hd hlen junk hj path v hv
  constructor
  · intro ⟨s, t, o, e⟩
    cases hat : Pointer.at v path with
    | some u => exact ⟨u, rfl⟩
    | none =>
      obtain ⟨c, off, e2, _⟩ := h2 hat
      rw [e] at e2; cases e2
  · intro ⟨u, hu⟩
    obtain ⟨s, t, _, e, _⟩ := h1 u hu
    exact ⟨s, t, t, e⟩

/-! ## non-vacuity -/

private def J : Nat → Nat → Nat := fun _ _ => 0

/-- `{"a\"b":[1,{"c":"]}"}],"d":2}` is valid, the path `["a\"b", 1, "c"]` resolves to the string `]}`, and
    `GetOnDemand` returns its slice `[16, 20)` -/
example :
    let data := [123, 34, 97, 92, 34, 98, 34, 58, 91, 49, 44, 123, 34, 99, 34, 58, 34, 93, 125, 34, 125, 93, 44,
      34, 100, 34, 58, 50, 125]
    (∃ v, parse data = .ok v ∧ Pointer.at v [.key [97, 34, 98], .idx 1, .key [99]] = some (.str [93, 125])) ∧
    getOnDemand 32 data J [.key [97, 34, 98], .idx 1, .key [99]] = .ok (.ok 16 20 20) ∧
    parseAt data 16 = .ok (.str [93, 125], 20) := by
  refine ⟨⟨.obj [([97, 34, 98], .arr [.num (.uint 1), .obj [([99], .str [93, 125])]]), ([100], .num (.uint 2))],
    by rfl, by rfl⟩, by decide +kernel, by rfl⟩

/-- an escaped key spelled `"a"` matches the path `a`; the duplicate key `a` is ignored (first match);
    a number's slice runs to the next separator: `{"a": 7 ,"a":8}` → `[10, 12)` = `7 ` -/
example :
    let data := [123, 34, 92, 117, 48, 48, 54, 49, 34, 58, 55, 32, 44, 34, 97, 34, 58, 56, 125]
    getOnDemand 16 data J [.key [97]] = .ok (.ok 10 12 12) ∧
    parseAt data 10 = .ok (.num (.uint 7), 11) := by
  refine ⟨by decide +kernel, by rfl⟩

/-- paths that do not resolve: missing key (8), index = size (9), index into an empty array (9, the fixed
    defect), negative index (2), key step into an array (10) -/
example :
    getOnDemand 32 [123, 34, 97, 34, 58, 49, 125] J [.key [98]] = .ok (.err 8 6 0) ∧
    getOnDemand 32 [91, 49, 44, 50, 93] J [.idx 2] = .ok (.err 9 4 0) ∧
    getOnDemand 32 [91, 91, 93, 44, 53, 93] J [.idx 0, .idx 1] = .ok (.err 9 3 0) ∧
    getOnDemand 32 [91, 49, 93] J [.idx (-1)] = .ok (.err 2 1 0) ∧
    getOnDemand 32 [91, 49, 93] J [.key [97]] = .ok (.err 10 0 0) := by decide +kernel

end Sonic.Props.C10
