import Sonic.Model.OnDemand
import Sonic.Proofs.OnDemandMain

/-!
# C11 — On-demand scanning of arbitrary unpadded input stays inside the input

Model: `Sonic.Model.OnDemand` (literal transcription of `GetOnDemand`, `SkipScanner`, `skip.inc.h`; parametric in
the vector width `W`).  The input `data` has exactly `len = data.length` bytes and every load is checked
(`rd`: `p < len`; `rdVec`: `p + n ≤ len`); the private key buffer `kbuf` (size `sn + 32`) is a second checked buffer
(`Sonic.Model.StringDec`'s `rd`/`wr`/`rdVec`/`wrVec` on a list of exactly `sn + 32` bytes) whose 31 bytes after the
copied key are arbitrary (`junk`).  A violated check, an undefined shift, or an exhausted loop fuel is a `Fault`,
so `getOnDemand … = .ok r` states: **no byte outside `[data, data+len)` is read, no byte outside `kbuf[0, sn+32)` is
touched, no undefined operation is executed, and every loop terminates within its fuel.**

Hypotheses, none of them about the *content* being JSON:
* `0 < W ≤ 32` (the code has `W = 16` and `W = 32`; `W ≤ 32` is what `kbuf`'s 32 spare bytes justify);
* the input is a byte string: every element `< 256`, and so is the junk (table lookups are indexed by bytes);
* for the slice clause, `len < 2^64` (the target's size is computed in `size_t`).
-/

namespace Sonic.Props.C11
open Sonic.Model.OnDemand Sonic.Spec.Pointer Sonic.Proofs.OnDemand

attribute [local instance] exceptDecEq

/-- **C11 (in bounds).** For every vector width `0 < W ≤ 32`, every byte string `data` of every length (including
    0), every path and every content of the stale part of `kbuf`: `GetOnDemand` returns normally — no `Fault`. -/
theorem C11_in_bounds (W : Nat) (hW : 0 < W) (hW32 : W ≤ 32) (data : List Nat) (hd : ∀ x ∈ data, x < 256)
    (hlen : data.length < 2 ^ 64) (junk : Nat → Nat → Nat) (hj : ∀ s i, junk s i < 256) (path : List Step) :
    ∃ r, getOnDemand W data junk path = .ok r := by
  obtain ⟨r, e, _⟩ := getOnDemand_ok hW hW32 data hd hlen junk hj path
  exact ⟨r, e⟩

/-- **C11 (slice).** Whenever success is reported, the target is the sub-range `[start, stop)` of the input with
    `start ≤ stop ≤ len` (in fact `start < stop`) and the reported offset is `stop ≤ len`; whenever an error is
    reported, the target is empty. -/
theorem C11_slice (W : Nat) (hW : 0 < W) (hW32 : W ≤ 32) (data : List Nat) (hd : ∀ x ∈ data, x < 256)
    (hlen : data.length < 2 ^ 64) (junk : Nat → Nat → Nat) (hj : ∀ s i, junk s i < 256) (path : List Step) :
    (∀ start stop off, getOnDemand W data junk path = .ok (.ok start stop off) →
        start ≤ stop ∧ start < stop ∧ stop ≤ data.length ∧ off ≤ data.length ∧ off = stop) ∧
    (∀ code off tsize, getOnDemand W data junk path = .ok (.err code off tsize) → tsize = 0) := by
  obtain ⟨r, e, h1, h2⟩ := getOnDemand_ok hW hW32 data hd hlen junk hj path
  rw [e]
  refine ⟨fun s t off h => ?_, fun c off t h => ?_⟩
  · injection h with h
    obtain ⟨a, b, c⟩ := h1 s t off h
    exact ⟨by omega, a, b, by omega, c⟩
  · injection h with h
    exact h2 c off t h

/-- **C11 (termination).** No loop of the scanner, and no loop of the key decoder, exhausts its fuel
    (`len + 2` per scanner loop, `3·|kbuf| + 3` for the decoder): the fuel fault never occurs. -/
theorem C11_termination (W : Nat) (hW : 0 < W) (hW32 : W ≤ 32) (data : List Nat) (hd : ∀ x ∈ data, x < 256)
    (hlen : data.length < 2 ^ 64) (junk : Nat → Nat → Nat) (hj : ∀ s i, junk s i < 256) (path : List Step) :
    getOnDemand W data junk path ≠ .error .fuel := by
  obtain ⟨r, e, _⟩ := getOnDemand_ok hW hW32 data hd hlen junk hj path
  rw [e]; intro h; cases h

/-! ## the true position bounds of the building blocks (arbitrary input, arbitrary entry position where stated) -/

/-- `GetNextToken` from ANY `pos` (even beyond `len`): returns; `pos` only grows and stays `≤ max pos len`
    (`≤ len` when entered with `pos ≤ len`); a non-zero result means `pos < len` (it is AT the token). -/
theorem C11_getNextToken (W : Nat) (hW : 0 < W) (data toks : List Nat) (pos : Nat) :
    ∃ c p', getNextToken W data toks pos = .ok (c, p') ∧ pos ≤ p' ∧ p' ≤ max pos data.length ∧
      (c ≠ 0 → p' < data.length) := getNextToken_ok hW data toks pos

/-- `SkipString` entered with `pos ≤ len`: returns with `pos ≤ len + 1`; the bound `len + 1` is attained (see the
    example below) but only together with the result 0 (`kUnclosed`), after which every caller returns without
    another read; a non-zero result means `pos ≤ len` -/
theorem C11_skipString (W : Nat) (hW : 0 < W) (data : List Nat) (pos : Nat) (h : pos ≤ data.length) :
    ∃ r p', skipString W data pos = .ok (r, p') ∧ (r ≠ 0 → pos < p' ∧ p' ≤ data.length) ∧
      pos ≤ p' ∧ p' ≤ data.length + 1 := skipString_ok hW data pos h

/-- the bound `len + 1` of `SkipString` is attained: a string whose last byte is a backslash that ends a block -/
example : skipString 32 (List.replicate 31 0x61 ++ [0x5C]) 0 = .ok (0, 33) := by decide +kernel

/-- `SkipContainer` (right brace ≠ NUL) entered with `pos ≤ len`: returns with `pos ≤ len`; the zero padding of
    the 64-byte tail copy can never close the container -/
theorem C11_skipContainer (data : List Nat) (left right : Nat) (hr : right ≠ 0) (pos : Nat) (h : pos ≤ data.length) :
    ∃ b p', skipContainer data left right pos = .ok (b, p') ∧ (b = true → pos < p' ∧ p' ≤ data.length) ∧
      pos ≤ p' ∧ p' ≤ data.length := skipContainer_ok data left right hr pos h

/-- `SkipSpaceSafe` entered with `pos ≤ len` and a cache describing a block that lies inside the input and does
    not start after `pos` (`CInv`; true of the fresh scanner): returns with `pos ≤ len`, the invariant again, and a
    non-NUL result only with `pos > 0`.  In particular the cached-block branch never shifts by `≥ 64`. -/
theorem C11_skipSpaceSafe (data : List Nat) (cache : Cache) (pos : Nat) (h : pos ≤ data.length)
    (hI : CInv data cache pos) :
    ∃ c p' cache', skipSpaceSafe data cache pos = .ok (c, p', cache') ∧ pos ≤ p' ∧ p' ≤ data.length ∧
      CInv data cache' p' ∧ (c ≠ 0 → 0 < p') := skipSpaceSafe_ok data cache pos h hI

/-- the precondition `pos ≤ len` of `SkipSpaceSafe` is necessary: entered with `pos = len + 1` its tail would read
    `data[len]`.  (No caller does that: `SkipString`'s `len + 1` always comes with the result 0.) -/
example : skipSpaceSafe [0x20, 0x20] Cache.init 3 = .error .oob := by decide +kernel

/-- the escaped-key decoder on `kbuf = raw key ++ 31 arbitrary bytes`: no access outside `kbuf`, and the result is
    the reference decoding (`Sonic.Spec.decodeLit`, via `dec`) of the key -/
theorem C11_kbuf (W : Nat) (hW : 0 < W) (hW32 : W ≤ 32) (data : List Nat) (hd : ∀ x ∈ data, x < 256)
    (junk : Nat → Nat) (hj : ∀ i, junk i < 256) (sp i : Nat) (hi : scanL false (data.drop sp) = some i) :
    ∃ r src, decRun W (mkKbuf ((data.drop sp).take (i + 1)) junk) = .ok (r, src) ∧
      KFinal (mkKbuf ((data.drop sp).take (i + 1)) junk) i r := by
  obtain ⟨ctx, hc⟩ := kbuf_ctx hW hW32 data hd junk hj sp i hi
  exact decRun_ok ctx hc

/-- the model's traced decoder run is `Sonic.Model.StringDec.run` (the C05 model) -/
theorem C11_decoder_is_C05_model (W : Nat) (kbuf : List Nat) :
    (decRun W kbuf).map Prod.fst = Sonic.Model.StringDec.run W kbuf 0 := decRun_fst W kbuf

/-- `W ≤ 32` is tight for `kbuf`: with a 33-byte vector the first block load on the copy of the empty escaped key
    `A`… would be fine, but a key whose closing quote is the last copied byte needs `src + W ≤ sn + 32` -/
example : (decRun 33 (mkKbuf [0x5C, 0x6E, 0x22] (fun _ => 0))).map Prod.fst = .error .oob := by decide +kernel

/-! ## non-vacuity: concrete inputs, checked by evaluation (junk = 0) -/

private def J : Nat → Nat → Nat := fun _ _ => 0

/-- `{"a\"b":[1,{"c":"]}"}],"d":2}` with path `["a\"b", 1, "c"]` → the slice `"]}"` at `[16, 20)` -/
example : getOnDemand 32 [123, 34, 97, 92, 34, 98, 34, 58, 91, 49, 44, 123, 34, 99, 34, 58, 34, 93, 125, 34, 125,
    93, 44, 34, 100, 34, 58, 50, 125] J [.key [97, 34, 98], .idx 1, .key [99]] = .ok (.ok 16 20 20) := by
  decide +kernel

/-- an escaped key spelled `"a"` matches the path `a` (decoded on `kbuf`), `W = 16` -/
example : getOnDemand 16 [123, 34, 92, 117, 48, 48, 54, 49, 34, 58, 55, 125] J [.key [97]] = .ok (.ok 10 11 11) := by
  decide +kernel

/-- length 0: empty path → `InvalidChar` at offset 0; a key step → `MismatchType`, and the error path's
    `pos -= 1` at `pos = 0` wraps to `2^64 - 1` (an error offset, not a read) -/
example : getOnDemand 32 [] J [] = .ok (.err 2 0 0) ∧
    getOnDemand 32 [] J [.key [97]] = .ok (.err 10 18446744073709551615 0) := by decide +kernel

/-- length 1, 63, 64, 65, 66: `[` followed by spaces, path `[0]` — the scanner runs to the end and reports an error -/
example : getOnDemand 32 [0x5B] J [.idx 0] = .ok (.err 2 1 0) ∧
    getOnDemand 32 (0x5B :: List.replicate 62 0x20) J [.idx 0] = .ok (.err 2 63 0) ∧
    getOnDemand 32 (0x5B :: List.replicate 63 0x20) J [.idx 0] = .ok (.err 2 64 0) ∧
    getOnDemand 32 (0x5B :: List.replicate 64 0x20) J [.idx 0] = .ok (.err 2 65 0) ∧
    getOnDemand 16 (0x5B :: List.replicate 65 0x20) J [.idx 0] = .ok (.err 2 66 0) := by decide +kernel

/-- an unclosed string whose last byte is a backslash at the end of a block: error offset `len + 1 = 66`
    (allowed: only a success constrains the offset), and no read beyond the input -/
example : getOnDemand 32 (0x22 :: List.replicate 63 0x61 ++ [0x5C]) J [] = .ok (.err 2 66 0) ∧
    getOnDemand 32 (0x22 :: List.replicate 62 0x61 ++ [0x5C]) J [] = .ok (.err 2 63 0) := by decide +kernel

/-- 70 spaces (the cached non-space block is used), then `[1, [2,3] ]`, path `[1, 0]` → `2` at `[75, 76)` -/
example : getOnDemand 32 (List.replicate 70 0x20 ++ [91, 49, 44, 32, 91, 50, 44, 51, 93, 32, 93]) J [.idx 1, .idx 0]
    = .ok (.ok 75 76 76) := by decide +kernel

/-- the hypotheses of the theorems are satisfiable by a non-trivial instance -/
example : ∃ (data : List Nat), (∀ x ∈ data, x < 256) ∧ data.length < 2 ^ 64 ∧ data.length = 65 :=
  ⟨List.replicate 65 0x5C, by simp, by simp, by simp⟩

end Sonic.Props.C11
