import Sonic.Model.Pool
import Sonic.Proofs.Pool

/-!
# C16 — The pool allocator hands out aligned, disjoint, stable blocks

Property theorems about the executable model `Sonic.Model.Pool` of `MemoryPoolAllocator`
(`include/sonic/allocator.h`).  Everything is quantified over **every finite sequence of protocol ops**
`ops : List Op` from the initial state: `run ops = ops.foldl (fun s op => (step s op).1) State.init`
(`Op`, `step`, `run` are defined in the model file because the line-protocol driver executes the very
same `step`).  `step s op` first checks the documented preconditions `op.pre s` (a decidable `Bool`:
slot empty / live / not moved-from, `dst ≠ src` for move-assignment, both handles of an assignment have
the same `ChunkPolicy` (the same C++ type), the block exists, i.e. was handed
out since its pool's last `Clear` and its pool is alive, `oldsize` = the size it was last requested
with, all sizes `< 2^32`, user buffer large enough); an op violating them is **skipped**: the state is
unchanged and the answer is `Out.skipped` (`bad-op`).

Trusted base (stated in the model file): base `Malloc` never fails and returns fresh regions that are
pairwise disjoint and 8-byte aligned; a pointer is `(region serial, offset in the chunk buffer)`.

`PoolInv` (defined in `Sonic/Proofs/Pool.lean`) is the conjunction of `RefInv` (slots / reference
counts), `ChunkInv` (chunks, regions, memory, frees, user buffers), `BlockInv` (blocks handed out) and
`PatInv` (block contents); `C16_inv_explicit` spells its content out.
-/

namespace Sonic.Props.C16
open Sonic.Model.Pool Sonic.Proofs.Pool

/-- two blocks do not overlap: different regions, or non-overlapping offset ranges (aligned sizes) -/
abbrev Disjoint := Sonic.Proofs.Pool.Disjoint

/-! ## C16_inv -/

/-- the invariant holds in every reachable state -/
theorem C16_inv (ops : List Op) : PoolInv (run ops) := inv_run ops

/-- the content of `PoolInv`, spelled out -/
theorem C16_inv_explicit (ops : List Op) :
    let s := run ops
    -- every block handed out since its pool's last Clear: aligned, inside one chunk of its (live) pool,
    -- inside live readable memory
    (∀ b ∈ s.blocks, b.off % 8 = 0 ∧ b.asz % 8 = 0 ∧ b.asz = alignUp b.req ∧ 0 < b.req ∧
      ∃ p, s.pool? b.pool = some p ∧ ∃ c ∈ p.chunks, c.reg = b.reg ∧
        b.off + b.asz ≤ c.size ∧ c.size ≤ c.cap ∧ c.reg ∉ s.freed ∧
        ∀ i, i < b.asz → (s.mem.read b.reg (b.off + i)).isSome) ∧
    -- blocks are pairwise disjoint (an in-place-grown block is the same block: same id)
    (∀ a ∈ s.blocks, ∀ b ∈ s.blocks, a.id ≠ b.id → Disjoint a b) ∧
    (∀ a ∈ s.blocks, ∀ b ∈ s.blocks, a.id = b.id → a = b) ∧
    -- chunk regions of live pools are pairwise distinct, within a pool and between pools
    (∀ pid p, s.pool? pid = some p → p.chunks.Pairwise (fun a b => a.reg ≠ b.reg)) ∧
    (∀ i j p q, s.pool? i = some p → s.pool? j = some q →
      ∀ c ∈ p.chunks, ∀ d ∈ q.chunks, c.reg = d.reg → i = j) ∧
    -- every chunk: size ≤ capacity, 8-aligned fill mark
    (∀ pid p, s.pool? pid = some p → ∀ c ∈ p.chunks, c.size ≤ c.cap ∧ c.size % 8 = 0) ∧
    -- refcount = number of live, non-moved handles referring to the shared state, and ≥ 1
    (∀ pid p, s.pool? pid = some p → p.refcount = count pid s.slots ∧ 1 ≤ p.refcount) ∧
    -- every live handle refers to a live shared state
    (∀ (k pid : Nat) (cp : Policy), s.slots[k]? = some (Handle.live pid cp) → (s.pool? pid).isSome) ∧
    s.slots.length = 8 := by
  intro s
  have h := inv_run ops
  refine ⟨?_, ?_, ?_, h.chunk.regs_nodup, h.chunk.regs_disj, ?_, ?_, ?_, h.ref.slots_len⟩
  · intro b hb
    obtain ⟨_, b2, b3, b4, p, hp, c, hc, e1, e2⟩ := h.block.block_ok b hb
    obtain ⟨c1, _, _, _, c5⟩ := h.chunk.chunk_ok _ p hp c hc
    exact ⟨b2, by rw [b3]; exact alignUp_mod _, b3, b4, p, hp, c, hc, e1, e2, c1, c5,
      fun i hi => block_readable h.chunk h.block hb i hi⟩
  · intro a ha b hb hne; exact disj_of_mem h.block.disj ha hb hne
  · intro a ha b hb e; exact eq_of_id_eq h.block.disj ha hb e
  · intro pid p hp c hc
    obtain ⟨c1, c2, _⟩ := h.chunk.chunk_ok pid p hp c hc
    exact ⟨c1, c2⟩
  · intro pid p hp; exact h.ref.of_pool hp
  · intro k pid cp hk
    obtain ⟨p, hp, _⟩ := h.ref.live hk
    show (poolAt (run ops).pools pid).isSome = true
    rw [hp]; rfl

/-- the model never reports a corrupted block (`mem=ok` on every line) -/
theorem C16_mem_ok (ops : List Op) : memCheck (run ops) = none := memCheck_none (inv_run ops)

/-- every live block holds exactly its pattern over its requested size -/
theorem C16_pattern (ops : List Op) :
    ∀ b ∈ (run ops).blocks, ∀ i, i < b.req → (run ops).mem.read b.reg (b.off + i) = some (pat b.id i) :=
  (inv_run ops).pat

/-! ## C16_accounting -/

theorem C16_accounting (ops : List Op) (k pid : Nat) (cp : Policy)
    (hk : (run ops).slots[k]? = some (Handle.live pid cp)) :
    ∃ p, (run ops).pool? pid = some p ∧
      p.size = (p.chunks.map (·.size)).sum ∧ p.capacity = (p.chunks.map (·.cap)).sum ∧
      p.size ≤ p.capacity ∧ blockSum pid (run ops).blocks ≤ p.size := by
  have h := inv_run ops
  obtain ⟨p, hp, _⟩ := h.ref.live hk
  refine ⟨p, hp, rfl, rfl, ?_, h.block.account pid p hp⟩
  have : ∀ l : List Chunk, (∀ c ∈ l, c.size ≤ c.cap) → (l.map (·.size)).sum ≤ (l.map (·.cap)).sum := by
    intro l; induction l with
    | nil => intro _; simp
    | cons c t ih =>
      intro hl
      have := hl c (by simp)
      have := ih (fun x hx => hl x (List.mem_cons_of_mem _ hx))
      simp only [List.map_cons, List.sum_cons]; omega
  exact this _ (fun c hc => (h.chunk.chunk_ok pid p hp c hc).1)

/-- what `pool-stat` prints is `Size()`, `Capacity()`, `Shared()` of the handle's pool -/
theorem C16_stat (ops : List Op) (k pid : Nat) (cp : Policy)
    (hk : (run ops).slots[k]? = some (Handle.live pid cp)) :
    ∃ p, (run ops).pool? pid = some p ∧
      step (run ops) (.stat k) = (run ops, .stat p.size p.capacity (decide (p.refcount > 1))) := by
  have h := inv_run ops
  obtain ⟨p, hp, _⟩ := h.ref.live hk
  refine ⟨p, hp, ?_⟩
  have hpre : (Op.stat k).pre (run ops) = true := by simp [Op.pre, isLive, hk]
  simp only [step, hpre, if_true, exec, execStat, hk, State.pool?, hp, Pool.shared]

/-! ## C16_zero -/

/-- `Malloc(0)` returns null and changes nothing; `Realloc(p, old, 0)` returns null (and changes
    nothing), for a null or non-null `p` -/
theorem C16_zero (ops : List Op) (slot : Nat) :
    (isLive (run ops) slot = true →
      ∃ sz cap, step (run ops) (.malloc slot 0) = (run ops, .ptr none sz cap false none)) ∧
    (∀ blk old, (Op.realloc slot blk old 0).pre (run ops) = true →
      ∃ sz cap, step (run ops) (.realloc slot blk old 0) = (run ops, .ptr none sz cap false none)) :=
  ⟨zero_malloc (inv_run ops) slot, fun blk old => zero_realloc (inv_run ops) slot blk old⟩

/-- at the level of the allocator functions, for any state whatsoever -/
theorem C16_zero_pool (p : Pool) (cp : Policy) (mem : Mem) (orig : Ptr) (old : Nat) :
    poolMalloc p cp mem 0 = ⟨p, cp, mem, none⟩ ∧ poolRealloc p cp mem orig old 0 = ⟨p, cp, mem, none⟩ :=
  ⟨rfl, poolRealloc_zero p cp mem orig old⟩

/-! ## C16_realloc_prefix -/

/-- `pool-realloc slot blk old new` runs exactly `poolRealloc` on the handle's pool, policy object and
    the current memory (this links the next theorem to `step`) -/
theorem C16_realloc_runs (s : State) (slot pid : Nat) (cp : Policy) (p : Pool)
    (hs : s.slots[slot]? = some (Handle.live pid cp)) (hp : s.pool? pid = some p) (orig : Ptr) (old new : Nat) :
    allocCore s slot orig old new =
      some (allocState s slot pid (poolRealloc p cp s.mem orig old new), pid,
            poolRealloc p cp s.mem orig old new) :=
  allocCore_eq hs hp orig old new

/-- In every reachable state, `Realloc(b, b.req, new)` of a live block `b` through a live handle, if it
    returns non-null `(reg, off)`: right after the call (before the harness refills the block) the first
    `min(old, new)` requested bytes of the result are the old block's bytes (all of them defined); and the
    result is the same pointer iff no growth of the aligned size is needed, or `b` is the most recent
    allocation of the head chunk (`b.off + align(old) = head.size`, same region) and the growth fits. -/
theorem C16_realloc_prefix (ops : List Op) (slot pid : Nat) (cp : Policy) (p : Pool) (b : Block)
    (new reg off : Nat)
    (hs : (run ops).slots[slot]? = some (Handle.live pid cp)) (hp : (run ops).pool? pid = some p)
    (hb : b ∈ (run ops).blocks)
    (hr : (poolRealloc p cp (run ops).mem (some (b.reg, b.off)) b.req new).ptr = some (reg, off)) :
    (∀ i, i < min b.req new → ∃ v, (run ops).mem.read b.reg (b.off + i) = some v ∧
        (poolRealloc p cp (run ops).mem (some (b.reg, b.off)) b.req new).mem.read reg (off + i) = some v) ∧
    ((reg, off) = (b.reg, b.off) ↔
      (alignUp new ≤ alignUp b.req ∨
        (b.reg = p.head.reg ∧ b.off + alignUp b.req = p.head.size ∧
          p.head.size + (alignUp new - alignUp b.req) ≤ p.head.cap))) :=
  realloc_prefix (inv_run ops) hs hp hb new reg off hr

/-! ## C16_contents_stable -/

/-- For every reachable state and every op: a block that is still handed out after the op (same block
    number) has kept its address, its requested size did not shrink, and every one of its (previously)
    requested bytes is unchanged by the op.  (The block an op creates did not exist before; a block
    grown in place keeps its old bytes, only the new tail is filled.) -/
theorem C16_contents_stable (ops : List Op) (op : Op) (b b' : Block)
    (hb : b ∈ (run ops).blocks) (hb' : b' ∈ (step (run ops) op).1.blocks) (hid : b'.id = b.id) :
    b'.reg = b.reg ∧ b'.off = b.off ∧ b.req ≤ b'.req ∧
    ∀ i, i < b.req →
      (step (run ops) op).1.mem.read b.reg (b.off + i) = (run ops).mem.read b.reg (b.off + i) :=
  stable_step (inv_run ops) op hb hb' hid

/-! ## C16_shared_lifetime -/

theorem C16_shared_lifetime (ops : List Op) :
    -- (a) a copy shares the pool state of its source (same shared state, policy object copied,
    --     refcount incremented)
    (∀ dst src, (Op.copy dst src).pre (run ops) = true →
      ∃ pid cp p, (run ops).slots[src]? = some (Handle.live pid cp) ∧
        (step (run ops) (.copy dst src)).1.slots[src]? = some (Handle.live pid cp) ∧
        (step (run ops) (.copy dst src)).1.slots[dst]? = some (Handle.live pid cp) ∧
        (step (run ops) (.copy dst src)).1.pool? pid = some p ∧
        p.refcount = count pid (run ops).slots + 1) ∧
    -- (b) the pool of every live handle is alive, and none of its chunk regions has been freed
    (∀ (k pid : Nat) (cp : Policy), (run ops).slots[k]? = some (Handle.live pid cp) →
      ∃ p, (run ops).pool? pid = some p ∧ ∀ c ∈ p.chunks, c.reg ∉ (run ops).freed) ∧
    -- (c) base Free is called only by Clear, or when the last handle of a pool is destroyed
    --     (destructor, or the destructor call inside copy-/move-assignment)
    (∀ op, (step (run ops) op).1.freed = (run ops).freed ∨ (∃ slot, op = .clear slot) ∨
      ∃ k pid cp p, (op = .destroy k ∨ (∃ src, op = .assign k src) ∨ (∃ src, op = .massign k src)) ∧
        (run ops).slots[k]? = some (Handle.live pid cp) ∧ (run ops).pool? pid = some p ∧ p.refcount = 1 ∧
        count pid (run ops).slots = 1 ∧ (step (run ops) op).1.pool? pid = none) ∧
    -- (d) a user-supplied buffer region is never freed
    (∀ u ∈ (run ops).userRegs, u ∉ (run ops).freed) := by
  have h := inv_run ops
  refine ⟨fun dst src hpre => copy_shares h dst src hpre, ?_, fun op => freed_step h op, h.chunk.user_nf⟩
  intro k pid cp hk
  obtain ⟨p, hp, _⟩ := h.ref.live hk
  exact ⟨p, hp, fun c hc => (h.chunk.chunk_ok pid p hp c hc).2.2.2.2⟩

/-! ## non-vacuity: concrete reachable states -/

/-- default-constructed pool, three real chunks, a realloc that had to move -/
def ex1 : List Op :=
  [.new 0 .simple 64, .malloc 0 13, .malloc 0 100, .realloc 0 (some 1) 100 200, .malloc 0 8]

/-- user buffer (misaligned by 3), adaptive policy, copies, clear, destruction of the last handle -/
def ex2 : List Op :=
  [.newbuf 0 .adaptive 16 100 3, .malloc 0 13, .malloc 0 17, .copy 1 0, .malloc 1 100, .move 2 0,
   .new 3 .adaptive 64, .malloc 3 8, .assign 3 1]

-- C16_inv: 5 chunks (the empty first one + 4), 4 live blocks
example : ((run ex1).pool? 0).map (fun p => p.chunks.map (fun c => (c.reg, c.cap, c.size))) =
    some [(4, 64, 8), (3, 200, 200), (2, 104, 104), (1, 64, 16), (0, 0, 0)] := by decide +kernel
example : (run ex1).blocks.map (fun b => (b.id, b.reg, b.off, b.req, b.asz)) =
    [(3, 4, 0, 8, 8), (2, 3, 0, 200, 200), (1, 2, 0, 100, 104), (0, 1, 0, 13, 16)] := by decide +kernel
-- an in-place realloc (`same`), and one that moves and copies (`copy=ok`)
example : (step (run ex1) (.realloc 0 (some 3) 8 24)).2 = .ptr (some (4, 0)) 344 432 true none := by
  decide +kernel
example : (step (run ex1) (.realloc 0 (some 0) 13 40)).2 = .ptr (some (4, 8)) 368 432 false (some true) := by
  decide +kernel
-- C16_accounting / C16_stat: the hypotheses are satisfiable
example : (run ex1).slots[0]? = some (.live 0 ⟨.simple, 64⟩) := by decide +kernel
example : blockSum 0 (run ex1).blocks = 328 ∧ ((run ex1).pool? 0).map (·.size) = some 328 ∧
    ((run ex1).pool? 0).map (·.capacity) = some 432 := by decide +kernel
-- C16_zero
example : isLive (run ex1) 0 = true ∧ (Op.realloc 0 (some 2) 200 0).pre (run ex1) = true ∧
    (Op.realloc 0 none 0 0).pre (run ex1) = true := by decide +kernel
-- C16_realloc_prefix: hypotheses satisfiable, both for the in-place and the moving case
example : (⟨3, 0, 4, 0, 8, 8⟩ : Block) ∈ (run ex1).blocks ∧
    ((run ex1).pool? 0).map (fun p => (poolRealloc p ⟨.simple, 64⟩ (run ex1).mem (some (4, 0)) 8 24).ptr) =
      some (some (4, 0)) := by decide +kernel
example : (⟨0, 0, 1, 0, 13, 16⟩ : Block) ∈ (run ex1).blocks ∧
    ((run ex1).pool? 0).map (fun p => (poolRealloc p ⟨.simple, 64⟩ (run ex1).mem (some (1, 0)) 13 40).ptr) =
      some (some (4, 8)) := by decide +kernel
-- C16_contents_stable: block 0 survives a realloc of block 3
example : ∃ b b', b ∈ (run ex1).blocks ∧ b' ∈ (step (run ex1) (.realloc 0 (some 3) 8 24)).1.blocks ∧
    b'.id = b.id ∧ b.id = 0 :=
  ⟨⟨0, 0, 1, 0, 13, 16⟩, ⟨0, 0, 1, 0, 13, 16⟩, by decide +kernel, by decide +kernel, rfl, rfl⟩
-- C16_shared_lifetime: user buffer (serial 0), adaptive chunks 32 and 128, three handles on pool 0
-- (slot 0 moved-from), the `assign` destroyed pool 1 and freed its two regions (serials 3 and 4)
example : (run ex2).userRegs = [0] ∧ (run ex2).freed = [4, 3] ∧ (run ex2).frees = 2 ∧
    ((run ex2).pool? 0).map (fun p => (p.refcount, p.ownBuffer, p.chunks.map (fun c => (c.reg, c.cap, c.size)))) =
      some (3, false, [(2, 128, 104), (1, 32, 24), (0, 39, 16)]) ∧
    (run ex2).pool? 1 = none ∧
    (run ex2).slots = [.moved ⟨.adaptive, 32⟩, .live 0 ⟨.adaptive, 128⟩, .live 0 ⟨.adaptive, 32⟩,
      .live 0 ⟨.adaptive, 128⟩, .empty, .empty, .empty, .empty] := by decide +kernel
example : (Op.copy 4 1).pre (run ex2) = true := by decide +kernel
-- Clear frees every chunk but the user buffer; destroying the remaining handles frees nothing more
example : (step (run ex2) (.clear 1)).2 = .cleared 2 0 39 := by decide +kernel
example : (run (ex2 ++ [.destroy 0, .destroy 1, .destroy 2, .destroy 3])).freed = [4, 3, 2, 1] ∧
    (run (ex2 ++ [.destroy 0, .destroy 1, .destroy 2, .destroy 3])).pool? 0 = none := by decide +kernel
-- an op outside the preconditions is skipped
example : step (run ex2) (.malloc 0 8) = (run ex2, .skipped) := by
  have : (Op.malloc 0 8).pre (run ex2) = false := by decide +kernel
  simp [step, this]

end Sonic.Props.C16
