import Sonic.Gen.SourceConsts
import Sonic.Model.Sax
import Sonic.Model.Dom
import Sonic.Model.Ftoa
import Sonic.Model.Pool
import Sonic.Model.Quote
import Sonic.Model.Stack
import Sonic.Model.Skip
import Sonic.Model.OnDemand
import Sonic.Spec.Json
import Sonic.Model.Number

/-!
# Source constants = model constants

`Sonic/Gen/SourceConsts.lean` is extracted textually from /repo's current source on every run
(`tools/extract_consts.py`): the constants that live inside function bodies.  The theorems below pin each
extracted value to the value the hand-written models use — where the model has a named definition the
statement is about that definition, otherwise about the literal used in the model (the model file and line are
named in the comment).  If the source constant is edited, the corresponding theorem no longer checks, the
obligation is reported as broken and the failing-input search starts; the correspondence run then shows the
behavioural difference.
-/

namespace Sonic.Props.Consts
open Sonic.Gen.Src

/-- C01/C02/C03: node-stack capacity `max(16, len/2+2)` (handler.h / schema_handler.h `SetUp`), padding and sentinel -/
theorem parse_consts :
    (∀ len, Sonic.Model.Parse.setUpCap len = max saxCapMin (len / saxCapDiv + saxCapAdd)) ∧
    (schemaCapDiv, schemaCapAdd, schemaCapMin) = (saxCapDiv, saxCapAdd, saxCapMin) ∧
    docPad = Sonic.Gen.SONICJSON_PADDING ∧ docPad = 64 ∧
    [sentinel0, sentinel1, sentinel2] = [0x78, 0x22, 0x78] := by
  refine ⟨fun len => ?_, rfl, rfl, rfl, rfl⟩
  simp only [Sonic.Model.Parse.setUpCap, saxCapMin, saxCapDiv, saxCapAdd]
  split <;> omega

/-- C12/C13: container growth (`dynamicnode.h`): first capacity 16, then `cap + (cap+1)/2` -/
theorem dom_consts :
    objDefaultCap = 16 ∧ arrDefaultCap = 16 ∧
    (∀ cap, Sonic.Model.Dom.grow cap = cap + (cap + objGrowAdd) / objGrowDiv) ∧
    (arrGrowAdd, arrGrowDiv) = (objGrowAdd, objGrowDiv) := ⟨rfl, rfl, fun _ => rfl, rfl⟩

/-- C06/C09: serializer reserves `6n+32+3` per string, 33 per number, `18·nodes+64` up front; default stack 256 (Model/Serialize.lean, Model/Stack.lean) -/
theorem serialize_consts :
    serStrMul = 6 ∧ serStrAdd1 + serStrAdd2 = 35 ∧ serNumberSize = 33 ∧ serMinifyRatio = 18 ∧ serEstimateAdd = 64 ∧
    Sonic.Model.Stack.Stk.dflt = Sonic.Model.Stack.Stk.new stackDefaultCap := ⟨rfl, rfl, rfl, rfl, rfl, rfl⟩

/-- C09/C14: page arithmetic of the over-read guards (Model/Quote.lean `pageSize`, `2 * W`; Model/Memcmp.lean `4096 - 32`) -/
theorem page_consts :
    Sonic.Model.Quote.pageSize = quotePageSize ∧ quoteTailVecs = 2 ∧ memcmpVecLen = 32 ∧ memcmpPageSize = 4096 :=
  ⟨rfl, rfl, rfl, rfl⟩

/-- C04: thresholds of `parseNumber` and the fixed-point logarithms (Model/Number.lean, NormalFast.lean, EiselLemire.lean, BigDecimal.lean) -/
theorem number_consts :
    numLongestDigits = 17 ∧ numMaxIntDigits = 19 ∧ numExpCap = 1000000000000000 ∧ numExp10Clamp = 100000 ∧
    decExpCap = 1000000000000000 ∧ decDpClamp = 1000000 ∧
    (∀ x : Int, Sonic.Model.Number.clampExp10 x =
      if x > (numExp10Clamp : Int) then (numExp10Clamp : Int) else if x < -(numExp10Clamp : Int) then -(numExp10Clamp : Int)
      else x) ∧
    (∀ x : Int, Sonic.Model.BigDecimal.clampDp x =
      if x > (decDpClamp : Int) then (decDpClamp : Int) else if x < -(decDpClamp : Int) then -(decDpClamp : Int) else x) ∧
    numFastManBits = 52 ∧
    numFastExpA + numFastExpB = 37 ∧ numFastExpNeg = 22 ∧ numNfLoA - numNfLoB = 307 ∧ numNfHiA - numNfHiB = 288 ∧
    (nfLog2Mul, nfLog2Sub, nfLog2Shift) = (217706, 4128768, 16) ∧ (elLog2Mul, elLog2Shift) = (217706, 16) ∧
    decimalMaxDigits = 800 ∧ decimalMaxShift = 60 :=
  ⟨rfl, rfl, rfl, rfl, rfl, rfl, fun _ => rfl, fun _ => rfl, rfl, rfl, rfl, rfl, rfl, rfl, rfl, rfl, rfl⟩

/-- C07: Schubfach exponent arithmetic and the format switch (Model/Ftoa.lean `kOf`, `hOf`) -/
theorem ftoa_consts :
    (∀ q irr, Sonic.Model.Ftoa.kOf q irr = ((q * (ftoaLog10Mul : Int) - (if irr then (ftoaLog10Irr : Int) else 0)) >>> ftoaLog10Shift)) ∧
    (∀ q k, Sonic.Model.Ftoa.hOf q k = q + (((-k) * (ftoaLog2Mul : Int)) >>> ftoaLog2Shift) + 1) ∧
    ftoaSciLo = 6 ∧ ftoaSciHi = 20 := ⟨fun _ _ => rfl, fun _ _ => rfl, rfl, rfl⟩

/-- C05/C10/C11/C20: string decoding offsets, surrogate range, key-buffer slack, `skip_space_safe` guard -/
theorem scan_consts :
    [hexOff0, hexOff1, hexOff2, hexOff3] = [630, 420, 210, 0] ∧ surHiLo = 0xD800 ∧ surHiEnd = 0xDC00 ∧
    odKeySlack = 32 ∧ lazyKeySlack = 32 ∧ skipSafeBlock = 64 ∧ skipSafeProbes = 2 := ⟨rfl, rfl, rfl, rfl, rfl, rfl, rfl⟩

/-- C16: 8-byte alignment and the default chunk capacity (Model/Pool.lean `alignUp`) -/
theorem pool_consts :
    (∀ x, Sonic.Model.Pool.alignUp x = (x + poolAlignMask) / (poolAlignMask + 1) * (poolAlignMask + 1)) ∧
    poolDefaultChunkA * poolDefaultChunkB = Sonic.Gen.SONIC_DEFAULT_CHUNK_CAPACITY := ⟨fun _ => rfl, rfl⟩

/-- one lane of `pshufb` (`_mm_shuffle_epi8` / `_mm256_shuffle_epi8`): the index byte `b` selects entry `b & 15` of the 16-byte
    table, or yields 0 when bit 7 of `b` is set -/
def pshufbLane (tab : List Nat) (b : Nat) : Nat := if b ≥ 128 then 0 else tab.getD (b % 16) 0

/-- a byte as `int8_t` (the SSE comparisons `cmplt` / `cmpgt` are signed) -/
def toInt8 (b : Nat) : Int := if b ≥ 128 then (b : Int) - 256 else (b : Int)

/-- C01/C02/C03/C05/C10/C11/C15/C20: the SIMD literal constants of the scanners, extracted from the source.
    `GetNonSpaceBits` marks byte `b` as whitespace iff `pshufb(table, b) == b`; for BOTH tables (AVX2, SSE) and every byte value that is
    exactly the scalar `IsSpace` the models use (so a filler value that coincides with some byte's own nibble slot breaks this theorem).
    `StringBlock::Find` compares with backslash, quote and the control-byte bound; the SSE form `v < 0x20 ∧ v > -1` (signed) is the
    unsigned `v ≤ 0x1f` of the AVX2 form. -/
theorem simd_consts :
    (∀ b, b < 256 → (pshufbLane wsTabAvx2 b == b) = Sonic.Model.Parse.isSpace b) ∧
    (∀ b, b < 256 → (pshufbLane wsTabSse b == b) = Sonic.Model.Parse.isSpace b) ∧
    wsTabAvx2.length = 16 ∧ wsTabSse.length = 16 ∧
    (∀ b, b < 256 → Sonic.Model.OnDemand.isSpace b = Sonic.Model.Parse.isSpace b ∧ Sonic.Spec.Json.isWs b = Sonic.Model.Parse.isSpace b) ∧
    (sbBackslashAvx2, sbQuoteAvx2, sbCtrlMaxAvx2) = (0x5C, 0x22, 0x1F) ∧ (sbBackslashSse, sbQuoteSse) = (0x5C, 0x22) ∧
    (∀ b, b < 256 → (decide (toInt8 b < toInt8 sbCtrlLtSse) && decide (toInt8 b > toInt8 sbCtrlGtSse)) = decide (b ≤ sbCtrlMaxAvx2)) := by
  refine ⟨by decide +kernel, by decide +kernel, rfl, rfl, by decide +kernel, rfl, rfl, by decide +kernel⟩

/-- C17/C13: the complete list of mutable `static` / `thread_local` variables declared in the library headers (extracted from the source
    on every run).  The only one is the function-local null node returned by `findValueImpl` for a missing key, which is written only when
    it is not null (fix F.. of C17, covered by the `thr-ro` runs).  Any additional shared mutable object - a scratch buffer made `static`,
    a cache, a counter - is a new way for independent documents and threads to interact and breaks this obligation before a race has to be
    caught in the act. -/
theorem shared_state_consts : mutableStatics = ["dom/dynamicnode.h:DNode tmp"] := rfl

end Sonic.Props.Consts
