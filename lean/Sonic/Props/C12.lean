import Sonic.Proofs.DomRun

/-!
# C12 — The mutation API behaves like plain ordered containers

Model: `Sonic.Model.Dom` (literal transcription of `DNode` / `GenericNode` / `GenericDocument`: capacities, growth
rules, the optional `std::multimap` as a sorted association list, string ownership tags, the command interpreter
`step` of `/verif/protocol/dom.md`).  Spec: `Sonic.Spec.Containers` (arrays = lists, objects = lists of pairs,
`RemoveMember` moves the last member into the hole, lookups return the first match; no capacity, no map).

Vocabulary (defined in `Sonic.Proofs.Dom*`):
* `DomInv s` — every document of the session satisfies, at every node: `len ≤ cap`; when an object has a map, the
  map's entries are exactly `{(key_i, i) | i < len}` (each once) and it is sorted by key.
* `MapOrdered s` — in every map the entries with EQUAL keys appear in vector order (strictly increasing index).
  With pairwise distinct keys this is implied by `DomInv` (`asc_of_sorted_distinct`).  It is what makes a
  map-based `FindMember` return the FIRST match.  `CreateMap` and `AddMember` establish / keep it for arbitrary
  (duplicate) keys; the only operation that can break it is `RemoveMember` on an object that has a map AND
  duplicate keys (`SafeOp` excludes exactly that) — see `C12_dup_keys_note`.
* `Session.abs` — the abstraction (`Node.abs` on each document: forget capacity, map, ownership).
* `Out.eraseL2` — forget `cap=` / `map=` of `dom-info` (L2 observables, not constrained by the property).
* `step env s op = none` ⇔ the command answers `bad-op` (precondition of dom.md violated).
-/

namespace Sonic.Props.C12
open Sonic.Spec Sonic.Model.Dom Sonic.Proofs.Dom
open Sonic.Spec.Containers (Key Step Path PStep Val NodeOp Res Op Out AllocKind State)

/-- **One step.**  For every state satisfying `DomInv` and every command: if the model accepts the command
    (its precondition holds) the new state satisfies `DomInv`, the spec accepts it too, the new abstract state is the
    spec's new state and everything printed except `cap=`/`map=` agrees; if the model rejects it so does the spec
    (the preconditions coincide).  `MapOrdered` is only needed for the commands that look keys up
    (`dom-remove`, `dom-find`, `dom-at`), and it is preserved by every command satisfying `SafeOp`. -/
theorem C12_refine (env : Env) (s : Session) (op : Op) (hinv : DomInv s)
    (hord : OpUsesLookup op → MapOrdered s) :
    (∀ s' o, step env s op = some (s', o) →
      DomInv s' ∧ Containers.step env s.abs op = some (s'.abs, o.eraseL2) ∧
      (MapOrdered s → SafeOp s op → MapOrdered s')) ∧
    (step env s op = none → Containers.step env s.abs op = none) := by
  have href := step_refines env hinv op hord
  refine ⟨fun s' o hst => ⟨step_DomInv env hinv hst, ?_, fun ha hsafe => step_MapOrdered env hinv ha hsafe hst⟩,
    fun hst => ?_⟩
  · rw [hst] at href
    exact href.symm
  · rw [hst] at href
    exact href.symm

/-- the same for one node operation applied to the node itself (`x` = the addressed node): object, array, node and
    lookup families at once -/
theorem C12_refine_node (env : Env) (nop : NodeOp) (x : Node) (hg : Good x) (ha : UsesLookup nop → AscAll x) :
    (Node.apply env nop x).map (fun r => (r.1.abs, r.2.eraseL2)) = Containers.applyNode env nop x.abs ∧
    (∀ x' r, Node.apply env nop x = some (x', r) → Good x' ∧ (AscAll x → SafeNode nop x → AscAll x')) :=
  ⟨apply_refines env nop hg ha, fun _ _ h => ⟨(apply_inv env nop h).1 hg, fun ha' hs => (apply_inv env nop h).2 hg ha' hs⟩⟩

/-- **Every reachable state satisfies the invariant** — no side condition at all (duplicate keys, maps, any
    interleaving). -/
theorem C12_inv_all (env : Env) (ops : List Op) : DomInv (run env Session.init ops).1 :=
  run_DomInv env ops _ init_DomInv

/-- **Whole runs.**  For every finite command sequence from the initial session in which `RemoveMember` is never
    applied to an object having a map AND duplicate keys (`SafeRun`): the reached state satisfies `DomInv` and
    `MapOrdered`, its abstraction is the state reached by the spec, and the two output sequences agree (a rejected
    command is `none` on both sides). -/
theorem C12_all (env : Env) (ops : List Op) (hsafe : SafeRun env Session.init ops) :
    DomInv (run env Session.init ops).1 ∧ MapOrdered (run env Session.init ops).1 ∧
    (run env Session.init ops).1.abs = (Containers.run env State.init ops).1 ∧
    (run env Session.init ops).2.map (Option.map Out.eraseL2) = (Containers.run env State.init ops).2 :=
  run_refines env ops Session.init init_DomInv init_MapOrdered hsafe

/-- The side condition read off the SPEC run alone: it suffices that, in the simple model, `RemoveMember` is only
    ever applied to objects whose keys are pairwise distinct (`SafeRunAbs`; all other commands — `AddMember` of
    duplicate keys, lookups on objects with duplicates, … — are unrestricted). -/
theorem C12_all_distinct_removes (env : Env) (ops : List Op) (hsafe : SafeRunAbs env State.init ops) :
    DomInv (run env Session.init ops).1 ∧
    (run env Session.init ops).1.abs = (Containers.run env State.init ops).1 ∧
    (run env Session.init ops).2.map (Option.map Out.eraseL2) = (Containers.run env State.init ops).2 := by
  have h := C12_all env ops (SafeRun_of_abs env ops Session.init init_DomInv init_MapOrdered hsafe)
  exact ⟨h.1, h.2.2.1, h.2.2.2⟩

/-- … and the same after every prefix of the sequence (every intermediate state, every intermediate output). -/
theorem C12_all_prefixes (env : Env) (ops : List Op) (hsafe : SafeRun env Session.init ops) (n : Nat) :
    DomInv (run env Session.init (ops.take n)).1 ∧ MapOrdered (run env Session.init (ops.take n)).1 ∧
    (run env Session.init (ops.take n)).1.abs = (Containers.run env State.init (ops.take n)).1 ∧
    (run env Session.init (ops.take n)).2.map (Option.map Out.eraseL2) =
      (Containers.run env State.init (ops.take n)).2 :=
  C12_all env (ops.take n) (SafeRun_take env ops _ n hsafe)

/-- **The map is invisible for objects with pairwise distinct keys** (node level): lookups through the map are the
    linear lookups; `CreateMap` / `DestroyMap` keep the members (hence `abs`) and the invariant, and every lookup
    (`dom-find` line, JSON-pointer step) and `RemoveMember` gives the same result before and after. -/
theorem C12_map_invisible {mt : Option ObjMeta} {ms : List Member} (hg : Good (.obj mt ms))
    (hnd : (ms.map mkey).Nodup) :
    (∀ k, findMemberSV k mt ms = ms.findIdx? (fun m => mkey m == k) ∧
          findMemberPL k mt ms = ms.findIdx? (fun m => mkey m == k)) ∧
    (∀ x', (createMapImpl (.obj mt ms) = some x' ∨ destroyMapImpl (.obj mt ms) = some x') →
      x'.abs = (Node.obj mt ms).abs ∧ Good x' ∧
      ∀ k, findImpl k x' = findImpl k (.obj mt ms) ∧
           x'.atStep (.key k) = (Node.obj mt ms).atStep (.key k) ∧
           (removeMemberImpl k x').map (fun r => (r.1.abs, r.2)) =
             (removeMemberImpl k (.obj mt ms)).map (fun r => (r.1.abs, r.2))) := by
  have hi := All_root hg
  refine ⟨fun k => ⟨(lookups_linear hi hnd k).1, (lookups_linear hi hnd k).2.1⟩, fun x' hx' => ?_⟩
  have hmem : ∃ mt', x' = .obj mt' ms := by
    rcases hx' with h | h
    · exact createMapImpl_members h
    · simp only [destroyMapImpl, Option.some.injEq] at h
      exact ⟨_, h.symm⟩
  have hg' : Good x' := by
    rcases hx' with h | h
    · exact (createMapImpl_inv h).1 hg
    · simp only [destroyMapImpl, Option.some.injEq] at h
      subst h
      exact (obj_meta_change (Nat.le_of_eq (destroyMapMeta_cap mt).symm) (.inl (destroyMapMeta_map mt))).1 hg
  obtain ⟨mt', rfl⟩ := hmem
  have hi' := All_root hg'
  refine ⟨by simp, hg', fun k => ⟨?_, ?_, ?_⟩⟩
  · rw [(lookups_linear hi' hnd k).2.2.1, (lookups_linear hi hnd k).2.2.1]
  · rw [(lookups_linear hi' hnd k).2.2.2, (lookups_linear hi hnd k).2.2.2]
  · rw [removeMemberImpl_abs hi' (localAsc_of_distinct hi' hnd) k,
      removeMemberImpl_abs hi (localAsc_of_distinct hi hnd) k]
    simp

/-- **The map is invisible** (run level): a successful `dom-createmap` / `dom-destroymap` leaves the abstract state
    unchanged, and every later command sequence prints the same lines (minus `cap=`/`map=`) and reaches the same
    abstract state whether or not the map command was executed (both runs being `SafeRun`, which holds in particular
    when objects carrying a map have pairwise distinct keys). -/
theorem C12_map_invisible_run (env : Env) (s s' : Session) (d : Nat) (p : Path) (nop : NodeOp) (o : Out)
    (hnop : nop = .createMap ∨ nop = .destroyMap) (hinv : DomInv s) (hord : MapOrdered s)
    (hst : step env s (.node d p nop) = some (s', o)) :
    s'.abs = s.abs ∧
    ∀ ops, SafeRun env s ops → SafeRun env s' ops →
      (run env s' ops).1.abs = (run env s ops).1.abs ∧
      (run env s' ops).2.map (Option.map Out.eraseL2) = (run env s ops).2.map (Option.map Out.eraseL2) := by
  obtain ⟨hinv', hspec, hord'⟩ := (C12_refine env s (.node d p nop) hinv (fun _ => hord)).1 s' o hst
  have hsafe : SafeOp s (.node d p nop) := by rcases hnop with rfl | rfl <;> trivial
  have habs : s'.abs = s.abs := by
    rcases hnop with rfl | rfl
    · exact spec_step_id env (spec_createMap_id env) hspec
    · exact spec_step_id env (spec_destroyMap_id env) hspec
  refine ⟨habs, fun ops h1 h2 => ?_⟩
  obtain ⟨_, _, a1, a2⟩ := run_refines env ops s hinv hord h1
  obtain ⟨_, _, b1, b2⟩ := run_refines env ops s' hinv' (hord' hord hsafe) h2
  rw [habs] at b1 b2
  exact ⟨b1.trans a1.symm, b2.trans a2.symm⟩

/-! ## duplicate keys -/

/-- `sv=` of a `dom-find` line -/
def foundIdx : Option Out → Option (Option Nat)
  | some (.node (.found sv _ _ _) _) => some sv
  | _ => none

def env0 : Env := { parse := fun _ => none, dump := fun _ _ _ => "" }

/-- `x`, `b`, `b` added, map built, `x` removed (the tail member `b`/u2 moves to position 0), then `FindMember(b)` -/
def dupOps : List Op := [
  .reset .simple, .node 0 [] (.set .obj),
  .node 0 [] (.add [120] (.uint 0) true),
  .node 0 [] (.add [98] (.uint 1) true),
  .node 0 [] (.add [98] (.uint 2) true),
  .node 0 [] .createMap,
  .node 0 [] (.remove [120]),
  .node 0 [] (.find [98])]

/-- **Duplicate keys with a map — what is and what is not guaranteed.**
    (a) With only `DomInv` (any duplicates, any history): a map-based `FindMember` finds a member iff the key is
        present (`HasMember` is always right), and the member it returns does carry that key.
    (b) If moreover the map lists equal keys in vector order (`LocalAsc`; true after `CreateMap` and any number of
        `AddMember`s, duplicates included), it returns the FIRST match, like the linear scan and the spec.
    (c) It is NOT always the first match: after `RemoveMember` moved a tail member with a duplicate key into the
        hole, the map lists that key's entries as `[(b,1),(b,0)]`; `FindMember(b)` answers position 1, the linear
        scan / the spec answer 0 (this command sequence is not `SafeRun`).  The property demands agreement only
        for distinct keys, so this is a documented limit, not a violation. -/
theorem C12_dup_keys_note :
    (∀ (mt : Option ObjMeta) (ms : List Member), LocalInv (.obj mt ms) → ∀ k,
      (findMemberSV k mt ms = none ↔ ms.findIdx? (fun m => mkey m == k) = none) ∧
      (∀ i, findMemberSV k mt ms = some i → ∃ m, ms[i]? = some m ∧ mkey m = k)) ∧
    (∀ (mt : Option ObjMeta) (ms : List Member), LocalInv (.obj mt ms) → LocalAsc (.obj mt ms) → ∀ k,
      findMemberSV k mt ms = ms.findIdx? (fun m => mkey m == k)) ∧
    (foundIdx ((run env0 Session.init dupOps).2.getLast?.join) = some (some 1) ∧
     foundIdx ((Containers.run env0 State.init dupOps).2.getLast?.join) = some (some 0) ∧
     ¬ SafeRun env0 Session.init dupOps) :=
  ⟨fun _ _ hi k => findMemberSV_weak hi k, fun _ _ hi ha k => findMemberSV_eq hi ha k,
    by decide, by decide, by decide⟩

/-! ## non-vacuity: concrete command sequences, evaluated by `decide` -/

def infoOf : Option Out → Option (Nat × Nat × Bool)
  | some (.node (.infoC sz _ c m _) _) => some (sz, c, m)
  | _ => none

def atUint : Option Out → Option Nat
  | some (.node (.atPtr (some (.num (.uint n)))) _) => some n
  | _ => none

def lastOut (r : Session × List (Option Out)) : Option Out := r.2.getLast?.join

def pushOps (n : Nat) : List Op :=
  [.reset .pool, .node 0 [] (.set .arr)] ++ List.replicate n (.node 0 [] (.push .null)) ++ [.node 0 [] .info]

/-- array growth from capacity 0: 16 after the first push, 24 after the 17th -/
example : infoOf (lastOut (run env0 Session.init (pushOps 1))) = some (1, 16, false) := by decide
example : infoOf (lastOut (run env0 Session.init (pushOps 16))) = some (16, 16, false) := by decide
example : infoOf (lastOut (run env0 Session.init (pushOps 17))) = some (17, 24, false) := by decide

def addOps (n : Nat) (withMap : Bool) : List Op :=
  [.reset .simple, .node 0 [] (.set .obj)] ++ (if withMap then [.node 0 [] .createMap] else []) ++
  (List.range n).map (fun i => .node 0 [] (.add [i] (.uint i) true)) ++ [.node 0 [] .info]

/-- object growth 0 → 16 → 24, with and without a map (17 distinct keys) -/
example : infoOf (lastOut (run env0 Session.init (addOps 17 false))) = some (17, 24, false) := by decide
example : infoOf (lastOut (run env0 Session.init (addOps 17 true))) = some (17, 24, true) := by decide
example : SafeRun env0 Session.init (addOps 17 true) := by decide

/-- remove-with-map of a middle member: keys a b c d, map, remove b (d moves to position 1), find d -/
def midOps : List Op := [
  .reset .track, .node 0 [] (.set .obj),
  .node 0 [] (.add [97] (.uint 0) true), .node 0 [] (.add [98] (.uint 1) false),
  .node 0 [] (.add [99] (.uint 2) true), .node 0 [] (.add [100] (.uint 3) true),
  .node 0 [] .createMap, .node 0 [] (.remove [98])]

example : foundIdx (lastOut (run env0 Session.init (midOps ++ [.node 0 [] (.find [100])]))) = some (some 1) := by
  decide
example : foundIdx (lastOut (run env0 Session.init (midOps ++ [.node 0 [] (.find [98])]))) = some none := by decide
example : infoOf (lastOut (run env0 Session.init (midOps ++ [.node 0 [] .info]))) = some (3, 16, true) := by decide
/-- the hypotheses of `C12_all` hold for it (distinct keys) -/
example : SafeRun env0 Session.init (midOps ++ [.node 0 [] (.find [100])]) := by decide

/-- erase of the full range drops the storage and the map -/
example : infoOf (lastOut (run env0 Session.init (midOps ++ [.node 0 [] (.eraseMem 0 3), .node 0 [] .info]))) =
    some (0, 0, false) := by decide
/-- erasing a sub-range keeps the capacity but still destroys the map -/
example : infoOf (lastOut (run env0 Session.init (midOps ++ [.node 0 [] (.eraseMem 1 2), .node 0 [] .info]))) =
    some (2, 16, false) := by decide

/-- move of a child into its parent: `[[1,2],3]`, root := move(root[0]) gives `[1,2]` -/
def moveOps : List Op := [
  .reset .pool, .node 0 [] (.set .arr), .node 0 [] (.push .arr), .node 0 [] (.push (.uint 3)),
  .node 0 [.idx 0] (.push (.uint 1)), .node 0 [.idx 0] (.push (.uint 2)),
  .move 0 [] 0 [.idx 0]]

example : atUint (lastOut (run env0 Session.init (moveOps ++ [.node 0 [] (.atPtr [.num 1])]))) = some 2 := by decide
example : infoOf (lastOut (run env0 Session.init (moveOps ++ [.node 0 [] .info]))) = some (2, 16, false) := by decide
/-- the reverse direction (moving a node into its own descendant) is rejected -/
example : lastOut (run env0 Session.init (moveOps ++ [.move 0 [.idx 0] 0 []])) = none := by decide

end Sonic.Props.C12
