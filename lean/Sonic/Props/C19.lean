import Sonic.Spec.Merge
import Sonic.Model.Schema
import Sonic.Proofs.MergeDecEq
import Sonic.Proofs.MergeSchema
import Sonic.Proofs.MergeHandler
import Sonic.Proofs.MergeCap

/-!
# C19 — `ParseSchema` updates exactly the members the existing document declares

> Parsing a valid JSON text 'into' an existing document keeps that document's set of keys at every object level that
> is a non-empty object on both sides, replaces the value of each declared key that the text provides (recursing when
> both sides are non-empty objects, otherwise taking the text's value whole), leaves declared keys the text omits
> unchanged, ignores undeclared keys, and replaces the whole value where the existing side is not a non-empty object.
> It never corrupts memory or the document on any valid text, whatever the combination of kinds on the two sides.

* `Spec.Merge.schema` is the statement; `Model.Schema.apply` the functional reading of the (fixed) handler;
  `Model.Schema.handler` the literal SAX state machine driven by `parseImpl`'s callback sequence.
* **Known finding F12**: where a non-empty existing object meets the text `{}` the implementation keeps the members,
  the statement takes the text whole.  `C19_counterexample` pins it to a witness, `C19_model_eq_spec_partial`
  proves equality on the complement (`NoEmptyOverNonEmpty`).
-/
namespace Sonic.Props.C19
open Sonic.Spec Sonic.Spec.Merge Sonic.Model.Schema Sonic.Proofs.MergeSchema Sonic.Proofs.MergeDecEq
open Sonic.Proofs.MergeHandler

/-! ## the model against the statement -/

/- Full statement (REFUTED for the implementation by `C19_counterexample`, known finding F12):
   `∀ e t, noDupKeys e = true → noDupKeys t = true → apply e t = schema e t`. -/

/-- For duplicate-free `e`, `t` such that no empty object of `t` sits where `e` has a non-empty object, the
    handler's functional reading is the statement's `schema`.  Missing for the full statement: exactly the inputs
    with `NoEmptyOverNonEmpty e t = false`, on which the two differ (F12). -/
theorem C19_model_eq_spec_partial (e t : JVal) (he : noDupKeys e = true) (ht : noDupKeys t = true)
    (hn : NoEmptyOverNonEmpty e t = true) : apply e t = schema e t :=
  apply_eq_schema e t he ht hn

/-- existing `{"a":{"b":1}}` -/
def f12Existing : JVal := .obj [([97], .obj [([98], .num (.uint 1))])]
/-- text `{"a":{}}` -/
def f12Text : JVal := .obj [([97], .obj [])]

/-- F12 pinned to a witness: the implementation keeps `{"a":{"b":1}}`, the statement gives `{"a":{}}` -/
theorem C19_counterexample : apply f12Existing f12Text ≠ schema f12Existing f12Text := by decide

example : apply f12Existing f12Text = f12Existing := by decide
example : schema f12Existing f12Text = f12Text := by decide
example : noDupKeys f12Existing = true ∧ noDupKeys f12Text = true ∧ NoEmptyOverNonEmpty f12Existing f12Text = false := by
  decide

/-! ## the statement's clauses, on the Spec -/

/-- non-empty object on both sides: the result is an object with exactly the existing keys, in order -/
theorem C19_keys_kept (m : List Nat × JVal) (ms : Members) (tm : List Nat × JVal) (tms : Members) :
    ∃ kvs, schema (.obj (m :: ms)) (.obj (tm :: tms)) = .obj kvs ∧ keys kvs = keys (m :: ms) :=
  ⟨_, by rw [schema], keys_schemaMembers _ _⟩

/-- an undeclared key of the text (with any value, at any position) is ignored -/
theorem C19_undeclared_ignored (m : List Nat × JVal) (ms : Members) (k : List Nat) (v : JVal) (a b : Members)
    (hk : hasKey k (m :: ms) = false) (hne : a ++ b ≠ []) :
    schema (.obj (m :: ms)) (.obj (a ++ (k, v) :: b)) = schema (.obj (m :: ms)) (.obj (a ++ b)) := by
  have h1 : ∃ x xs, a ++ (k, v) :: b = x :: xs := by cases a <;> simp
  have h2 : ∃ y ys, a ++ b = y :: ys := by
    cases h : a ++ b with
    | nil => exact absurd h hne
    | cons y ys => exact ⟨y, ys, rfl⟩
  obtain ⟨x, xs, e1⟩ := h1
  obtain ⟨y, ys, e2⟩ := h2
  rw [e1, e2, schema, schema, ← e1, ← e2, schemaMembers_undeclared v a b (m :: ms) hk]

/-- a declared key that the text omits keeps its value (and its position) -/
theorem C19_omitted_unchanged (m : List Nat × JVal) (ms : Members) (tm : List Nat × JVal) (tms : Members)
    (i : Nat) (k : List Nat) (v : JVal) (hi : (m :: ms)[i]? = some (k, v)) (ho : lookup k (tm :: tms) = none) :
    ∃ kvs, schema (.obj (m :: ms)) (.obj (tm :: tms)) = .obj kvs ∧ kvs[i]? = some (k, v) := by
  refine ⟨_, by rw [schema], ?_⟩
  rw [schemaMembers_eq_map, List.getElem?_map, hi]
  simp [specMember, ho]

/-- a declared key that the text provides gets `schema` of the two values (recursion / text value whole) -/
theorem C19_provided_replaced (m : List Nat × JVal) (ms : Members) (tm : List Nat × JVal) (tms : Members)
    (i : Nat) (k : List Nat) (ev tv : JVal) (hi : (m :: ms)[i]? = some (k, ev))
    (hp : lookup k (tm :: tms) = some tv) :
    ∃ kvs, schema (.obj (m :: ms)) (.obj (tm :: tms)) = .obj kvs ∧ kvs[i]? = some (k, schema ev tv) := by
  refine ⟨_, by rw [schema], ?_⟩
  rw [schemaMembers_eq_map, List.getElem?_map, hi]
  simp [specMember, hp]

/-- where one side is not a non-empty object the text's value is taken whole -/
theorem C19_replaced_whole (e t : JVal) (h : isNonEmptyObj e = false ∨ isNonEmptyObj t = false) :
    schema e t = t := by
  rcases h with h | h
  · exact schema_of_not_obj_left t h
  · exact schema_of_not_obj_right e h

/-- parsing the same (duplicate-free) text a second time changes nothing -/
theorem C19_idempotent (e t : JVal) (ht : noDupKeys t = true) : schema (schema e t) t = schema e t :=
  schema_idem e t ht

/-- repeated application: two texts one after the other, model against statement -/
theorem C19_repeat (e t t' : JVal) (he : noDupKeys e = true) (ht : noDupKeys t = true) (ht' : noDupKeys t' = true)
    (hn : NoEmptyOverNonEmpty e t = true) (hn' : NoEmptyOverNonEmpty (schema e t) t' = true) :
    apply (apply e t) t' = schema (schema e t) t' := by
  rw [apply_eq_schema e t he ht hn]
  exact apply_eq_schema _ t' (noDup_schema e t he ht) ht' hn'

/-! ## the literal SAX state machine -/

/-- The handler with its node stack, `cur_node_`/`parent_node_` paths, `parent_st_`, `found_count_st_` (16 initial
    elements) and `found_node_count_`, driven by `parseImpl`'s callback sequence (with the `CheckKeyReturn`
    protocol) for the text value `t`, finishes with `err = 0`, without any fault of the checked model (no null or
    dangling node pointer, no read of a dead stack slot, no `pop_back` on an empty vector), and leaves exactly
    `apply e t` — for EVERY existing document `e` and EVERY text value `t` (duplicate keys included on both sides),
    provided the node stack has room for the text's value: `nodes t ≤ cap`, where `cap = max(16, len/2 + 2)` is what
    `SetUp` allocates for a text of `len` bytes (a text spelling `t` has at least `2 * nodes t - 1` bytes). -/
theorem C19_handler_refines (cap : Nat) (e t : JVal) (hcap : nodes t ≤ cap) :
    handler cap e t = .ok (0, apply e t) :=
  handler_eq_apply cap e t hcap

/-- the machine against the statement (corollary) -/
theorem C19_handler_eq_spec_partial (cap : Nat) (e t : JVal) (hcap : nodes t ≤ cap) (he : noDupKeys e = true)
    (ht : noDupKeys t = true) (hn : NoEmptyOverNonEmpty e t = true) : handler cap e t = .ok (0, schema e t) := by
  rw [C19_handler_refines cap e t hcap, apply_eq_schema e t he ht hn]

/-- … for a TEXT: whenever the spec reader accepts `text` with value `t`, the stack that `SetUp` allocates for it
    (`setUpCap text.length = max(16, len/2 + 2)`) has room, so `ParseSchema(text)` on ANY existing document `e` ends
    with `err = 0`, no fault, and the document `apply e t`. -/
theorem C19_handler_refines_text (text : List Nat) (e t : JVal) (hp : Sonic.Spec.Json.parse text = .ok t) :
    handler (setUpCap text.length) e t = .ok (0, apply e t) :=
  handler_eq_apply _ e t (Sonic.Proofs.MergeCap.nodes_le_setUpCap hp)

/-- the statement for texts, on the complement of F12 -/
theorem C19_text_eq_spec_partial (text : List Nat) (e t : JVal) (hp : Sonic.Spec.Json.parse text = .ok t)
    (he : noDupKeys e = true) (ht : noDupKeys t = true) (hn : NoEmptyOverNonEmpty e t = true) :
    handler (setUpCap text.length) e t = .ok (0, schema e t) := by
  rw [C19_handler_refines_text text e t hp, apply_eq_schema e t he ht hn]

/-! ## non-vacuity: the regression pairs of the fixed defects, through the literal machine -/

private def u (n : Nat) : JVal := .num (.uint n)

/-- F15: `{"e":0,"d":{"a":[],"e":0,"c":null},"a":0}` + `{"d":{"e":1,"a":{"c":false}},"a":2,"e":-2}` -/
def f15Existing : JVal :=
  .obj [([101], u 0), ([100], .obj [([97], .arr []), ([101], u 0), ([99], .null)]), ([97], u 0)]
def f15Text : JVal :=
  .obj [([100], .obj [([101], u 1), ([97], .obj [([99], .bool false)])]), ([97], u 2), ([101], .num (.sint (-2)))]

example : handler 16 f15Existing f15Text =
    .ok (0, .obj [([101], .num (.sint (-2))),
                  ([100], .obj [([97], .obj [([99], .bool false)]), ([101], u 1), ([99], .null)]),
                  ([97], u 2)]) := by decide +kernel
example : handler 16 f15Existing f15Text = .ok (0, schema f15Existing f15Text) := by decide +kernel
example : noDupKeys f15Existing = true ∧ noDupKeys f15Text = true ∧
    NoEmptyOverNonEmpty f15Existing f15Text = true ∧ nodes f15Text ≤ 16 := by decide +kernel

/-- F10: `{"k":{"x":5}}` + `{"k":[{"x":1}]}` -/
def f10Existing : JVal := .obj [([107], .obj [([120], u 5)])]
def f10Text : JVal := .obj [([107], .arr [.obj [([120], u 1)]])]

example : handler 16 f10Existing f10Text = .ok (0, f10Text) := by decide +kernel
/-- the hypothesis of `C19_handler_refines_text` on the bytes `{"k":[{"x":1}]}` -/
example : Sonic.Spec.Json.parse [0x7B, 0x22, 0x6B, 0x22, 0x3A, 0x5B, 0x7B, 0x22, 0x78, 0x22, 0x3A, 0x31, 0x7D, 0x5D, 0x7D]
    = .ok f10Text := by decide +kernel
example : schema f10Existing f10Text = f10Text := by decide +kernel

/-- repeated application through the machine: `{"a":1,"b":{"c":[1]}}`, then `{"b":{"c":{"d":null}},"z":0}`, then
    `{"b":{"c":{"d":[true]}}}` -/
example :
    (match handler 16 (.obj [([97], u 1), ([98], .obj [([99], .arr [u 1])])])
            (.obj [([98], .obj [([99], .obj [([100], .null)])]), ([122], u 0)]) with
     | .ok (_, d) => handler 16 d (.obj [([98], .obj [([99], .obj [([100], .arr [.bool true])])])])
     | .error f => .error f)
    = .ok (0, .obj [([97], u 1), ([98], .obj [([99], .obj [([100], .arr [.bool true])])])]) := by decide +kernel

end Sonic.Props.C19
