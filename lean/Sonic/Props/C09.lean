import Sonic.Proofs.Quote

/-!
# C09 — String quoting is exact for all bytes and never strays outside its buffers

> Serialising a string of arbitrary bytes emits a quote, then each byte verbatim except that quote,
> backslash and bytes below 0x20 are replaced by their JSON escapes, then a quote; the emitted length never
> exceeds 6 x length + 2.  In a normal (non-sanitizer) build the routine may be handed a string that ends on
> the last byte of a mapped page and still neither faults nor lets bytes beyond the string influence the
> output.

Model: `Sonic.Model.Quote` (`Quote`, `CopyAndGetEscapMask`, `DoEscape`, both tail variants), vector width
`W` (16 = SSE, 32 = AVX2).  `run W san addr mem n cap junk fill` runs `Quote` on the `n` bytes at address
`addr` of the memory `mem` (a load touching an unmapped byte is `.error .load`) into a destination of
capacity `cap` with arbitrary initial contents `fill` (a store past `cap` is `.error .store`); `junk` are the
uninitialised bytes of the local `tmp_src[2*W]`.  It returns the bytes `[dst, returned pointer)` and the
write extent (one past the highest destination index stored to).

Common hypotheses (`s` is the string, `n = s.length`):
* `hbytes` : every element of `s` is a byte;
* `hmem`   : `mem` holds `s` at `[addr, addr+n)`;
* `hpages` : every page (4096 bytes) containing a byte of the string is mapped — nothing is assumed
             about the page after the string (it may be unmapped), nor about the bytes around the string;
* `hcap`   : the destination has the `6n + 32 + 3` bytes the serializer reserves (`dom/serialize.h`).

Extent: the tight bound is `ext ≤ 6n + max 3 (W - 5)` for `n ≥ 1` (and `ext = 2` for `n = 0`):
`6n + 3` from the 8-byte table store of `DoEscape` when the last byte has a 6-byte escape, `6n + W - 5`
from the `W`-byte store of `CopyAndGetEscapMask` in the tail when one byte is left after `n-1` six-byte
escapes; i.e. `6n + 11` for SSE and `6n + 27` for AVX2, both `< 6n + 35`.  Reached: see the examples
after `C09_extent`.
-/

namespace Sonic.Props.C09
open Sonic.Gen Sonic.Model.Quote Sonic.Proofs.Quote

/-- The generated tables agree with the RFC-8259 spec byte by byte: `kNeedEscaped` flags exactly the
control bytes, `"` and `\`; for those, `kQuoteTab[b].s` is 8 readable bytes whose first `kQuoteTab[b].n`
(between 1 and 6) are `Spec.escapeByte b`; every other byte is spelled verbatim by the spec (and its table
row is the null pointer, which `DoEscape` is never asked to copy — that is part of `C09_quote`). -/
theorem C09_tab : ∀ b, b < 256 →
    (kNeedEscaped[b]? = some 1 ↔ (b < 0x20 ∨ b = 0x22 ∨ b = 0x5C)) ∧
    (kNeedEscaped[b]? = some 1 ∨ kNeedEscaped[b]? = some 0) ∧
    ((b < 0x20 ∨ b = 0x22 ∨ b = 0x5C) →
      ∃ row nc, kQuoteTabS[b]? = some row ∧ kQuoteTabN[b]? = some nc ∧ row.length = 8 ∧
        1 ≤ nc ∧ nc ≤ 6 ∧ row.take nc = Spec.escapeByte b) ∧
    (¬ (b < 0x20 ∨ b = 0x22 ∨ b = 0x5C) →
      Spec.escapeByte b = [b] ∧ kQuoteTabS[b]? = some [] ∧ kQuoteTabN[b]? = some 0) := by
  intro b hb
  have hn := tab_need b hb
  cases h : needEsc b with
  | true =>
    have h' := (needEsc_iff b).mp h
    rw [h] at hn
    exact ⟨by simp [hn, h'], Or.inl (by simpa using hn), fun _ => tab_row' h, fun hc => absurd h' hc⟩
  | false =>
    have h' : ¬ (b < 0x20 ∨ b = 0x22 ∨ b = 0x5C) := by rw [← needEsc_iff]; simp [h]
    rw [h] at hn
    exact ⟨by simp [hn, h'], Or.inr (by simpa using hn), fun hc => absurd hc h',
      fun _ => ⟨escapeByte_plain h, tab_null b hb h⟩⟩

example : Spec.escapeByte 0x22 = [0x5C, 0x22] ∧ Spec.escapeByte 0x0B = [0x5C, 0x75, 0x30, 0x30, 0x30, 0x62] ∧
    Spec.escapeByte 0x1F = [0x5C, 0x75, 0x30, 0x30, 0x31, 0x66] ∧ Spec.escapeByte 0x0A = [0x5C, 0x6E] ∧
    Spec.escapeByte 0x7F = [0x7F] ∧ Spec.escapeByte 0xFF = [0xFF] ∧ Spec.escapeByte 0x2F = [0x2F] := by decide

/-- `Quote` returns exactly the spec string, for both tail variants, every address, every memory that
holds the string on mapped pages, every content of the uninitialised local buffer and of the destination.
(`= .ok _` also says: no fault, no null-table copy, no `size_t` underflow, and the loops terminate within
their fuel.) -/
theorem C09_quote (W : Nat) (hW : 0 < W) (hW32 : W ≤ 32) (san : Bool) (addr : Nat) (mem : Mem)
    (s : List Nat) (cap : Nat) (junk fill : Nat → Nat)
    (hbytes : ∀ b ∈ s, b < 256)
    (hmem : ∀ i (h : i < s.length), mem (addr + i) = some s[i])
    (hpages : ∀ i, i < s.length → ∀ q, q / 4096 = (addr + i) / 4096 → (mem q).isSome = true)
    (hcap : 6 * s.length + 35 ≤ cap) :
    ∃ ext, run W san addr mem s.length cap junk fill = .ok (Spec.quote s, ext) := by
  obtain ⟨ext, h, _⟩ := run_ok hW (by unfold pageSize; omega) san mem junk fill addr s cap hbytes hmem hpages
    (6 * s.length + 27) (by omega) (by omega) (by omega)
  exact ⟨ext, h⟩

/-- Same for every vector width up to half a page, with the exact capacity that is needed. -/
theorem C09_quote_anyW (W : Nat) (hW : 0 < W) (hW2 : 2 * W ≤ 4096) (san : Bool) (addr : Nat) (mem : Mem)
    (s : List Nat) (cap : Nat) (junk fill : Nat → Nat)
    (hbytes : ∀ b ∈ s, b < 256)
    (hmem : ∀ i (h : i < s.length), mem (addr + i) = some s[i])
    (hpages : ∀ i, i < s.length → ∀ q, q / 4096 = (addr + i) / 4096 → (mem q).isSome = true)
    (hcap : 6 * s.length + max 3 (W - 5) ≤ cap) :
    ∃ ext, run W san addr mem s.length cap junk fill = .ok (Spec.quote s, ext) ∧
      ext ≤ 6 * s.length + max 3 (W - 5) := by
  exact run_ok hW hW2 san mem junk fill addr s cap hbytes hmem hpages
    (6 * s.length + max 3 (W - 5)) (by omega) (by omega) hcap

/-- emitted length `≤ 6·n + 2` -/
theorem C09_len (s : List Nat) : (Spec.quote s).length ≤ 6 * s.length + 2 := by
  have := flatMap_escape_len_le s
  simp only [Spec.quote, List.length_cons, List.length_append, List.length_nil]
  omega

/-- every store stays below `6n + max 3 (W-5)` (tight), hence inside the `6n + 35` reserved bytes -/
theorem C09_extent (W : Nat) (hW : 0 < W) (hW32 : W ≤ 32) (san : Bool) (addr : Nat) (mem : Mem)
    (s : List Nat) (cap : Nat) (junk fill : Nat → Nat)
    (hbytes : ∀ b ∈ s, b < 256)
    (hmem : ∀ i (h : i < s.length), mem (addr + i) = some s[i])
    (hpages : ∀ i, i < s.length → ∀ q, q / 4096 = (addr + i) / 4096 → (mem q).isSome = true)
    (hcap : 6 * s.length + 35 ≤ cap)
    (out : List Nat) (ext : Nat) (hrun : run W san addr mem s.length cap junk fill = .ok (out, ext)) :
    ext ≤ 6 * s.length + max 3 (W - 5) ∧ ext ≤ 6 * s.length + 27 ∧ ext ≤ 6 * s.length + 35 := by
  obtain ⟨ext', h, hle⟩ := run_ok hW (by unfold pageSize; omega) san mem junk fill addr s cap hbytes hmem hpages
    (6 * s.length + max 3 (W - 5)) (by omega) (by omega) (by omega)
  rw [h] at hrun
  injection hrun with hrun
  injection hrun with _ hrun
  subst hrun
  omega

/-- No load touches an unmapped byte even when ONLY the pages that contain a byte of the string are mapped
(so the string may end on the last byte of a mapped page followed by an unmapped one): the run succeeds,
in particular it is not a load fault.  (Also true for `n = 0`: then no page is mapped and nothing is read.) -/
theorem C09_reads_mapped (W : Nat) (hW : 0 < W) (hW32 : W ≤ 32) (san : Bool) (addr : Nat) (mem : Mem)
    (s : List Nat) (cap : Nat) (junk fill : Nat → Nat)
    (hbytes : ∀ b ∈ s, b < 256)
    (hmem : ∀ i (h : i < s.length), mem (addr + i) = some s[i])
    (honly : ∀ q, (mem q).isSome = true ↔ ∃ i, i < s.length ∧ q / 4096 = (addr + i) / 4096)
    (hcap : 6 * s.length + 35 ≤ cap) :
    (∃ ext, run W san addr mem s.length cap junk fill = .ok (Spec.quote s, ext)) ∧
    run W san addr mem s.length cap junk fill ≠ .error Fault.load := by
  have h := C09_quote W hW hW32 san addr mem s cap junk fill hbytes hmem
    (fun i hi q hq => (honly q).mpr ⟨i, hi, hq⟩) hcap
  refine ⟨h, ?_⟩
  obtain ⟨ext, h⟩ := h
  rw [h]
  intro hc
  cases hc

/-- Bytes beyond the string do not influence the output: two memories that agree on the string (both with
the string's pages mapped), any two contents of the uninitialised local buffer and of the destination give
the same returned bytes.  (The scratch bytes between the returned pointer and the write extent do depend
on what follows the string; they are not part of the output.) -/
theorem C09_independent (W : Nat) (hW : 0 < W) (hW32 : W ≤ 32) (san : Bool) (addr : Nat) (mem₁ mem₂ : Mem)
    (s : List Nat) (cap : Nat) (junk₁ junk₂ fill₁ fill₂ : Nat → Nat)
    (hbytes : ∀ b ∈ s, b < 256)
    (hmem₁ : ∀ i (h : i < s.length), mem₁ (addr + i) = some s[i])
    (hagree : ∀ i, i < s.length → mem₂ (addr + i) = mem₁ (addr + i))
    (hpages₁ : ∀ i, i < s.length → ∀ q, q / 4096 = (addr + i) / 4096 → (mem₁ q).isSome = true)
    (hpages₂ : ∀ i, i < s.length → ∀ q, q / 4096 = (addr + i) / 4096 → (mem₂ q).isSome = true)
    (hcap : 6 * s.length + 35 ≤ cap) :
    ∃ out e₁ e₂, run W san addr mem₁ s.length cap junk₁ fill₁ = .ok (out, e₁) ∧
      run W san addr mem₂ s.length cap junk₂ fill₂ = .ok (out, e₂) ∧ out = Spec.quote s := by
  obtain ⟨e₁, h₁⟩ := C09_quote W hW hW32 san addr mem₁ s cap junk₁ fill₁ hbytes hmem₁ hpages₁ hcap
  obtain ⟨e₂, h₂⟩ := C09_quote W hW hW32 san addr mem₂ s cap junk₂ fill₂ hbytes
    (fun i h => by rw [hagree i h]; exact hmem₁ i h) hpages₂ hcap
  exact ⟨_, e₁, e₂, h₁, h₂, rfl⟩

/-! ## non-vacuity: a 40-byte string with special bytes at offsets 0, 15, 16, 31, 32, 39 that ends on the last
byte of the only mapped page -/

/-- `"` a×14 `\n` `\` b×14 0x1F 0x00 b×6 `"` -/
def exStr : List Nat :=
  [0x22, 97, 97, 97, 97, 97, 97, 97, 97, 97, 97, 97, 97, 97, 97, 0x0A,
   0x5C, 98, 98, 98, 98, 98, 98, 98, 98, 98, 98, 98, 98, 98, 98, 0x1F,
   0x00, 98, 98, 98, 98, 98, 98, 0x22]

/-- the string occupies the last 40 bytes of the page `[0x101000, 0x102000)` -/
def exAddr : Nat := 0x102000 - 40

/-- only that page is mapped; its other bytes are `g` -/
def exMem (g : Nat) : Mem := fun p =>
  if 0x101000 ≤ p ∧ p < 0x102000 then
    (if exAddr ≤ p then some (exStr.getD (p - exAddr) g) else some g)
  else none

theorem exStr_bytes : ∀ b ∈ exStr, b < 256 := by decide

theorem exMem_holds (g : Nat) : ∀ i (h : i < exStr.length), exMem g (exAddr + i) = some exStr[i] := by
  intro i h
  have h40 : i < 40 := h
  have h1 : 0x101000 ≤ exAddr + i ∧ exAddr + i < 0x102000 := by unfold exAddr; omega
  have h2 : exAddr ≤ exAddr + i := by omega
  simp only [exMem, h1, h2, and_self, if_true, Nat.add_sub_cancel_left]
  rw [List.getD_eq_getElem?_getD, List.getElem?_eq_getElem h]
  rfl

theorem exMem_only (g : Nat) :
    ∀ q, (exMem g q).isSome = true ↔ ∃ i, i < exStr.length ∧ q / 4096 = (exAddr + i) / 4096 := by
  intro q
  have hl : exStr.length = 40 := rfl
  constructor
  · intro h
    have hq : 0x101000 ≤ q ∧ q < 0x102000 := by
      by_cases hq : 0x101000 ≤ q ∧ q < 0x102000
      · exact hq
      · simp [exMem, hq] at h
    exact ⟨0, by decide, by unfold exAddr; omega⟩
  · rintro ⟨i, hi, hq⟩
    rw [hl] at hi
    have hq : 0x101000 ≤ q ∧ q < 0x102000 := by unfold exAddr at hq; omega
    simp only [exMem, hq, and_self, if_true]
    split <;> rfl

theorem exMem_pages (g : Nat) :
    ∀ i, i < exStr.length → ∀ q, q / 4096 = (exAddr + i) / 4096 → (exMem g q).isSome = true :=
  fun i hi q hq => (exMem_only g q).mpr ⟨i, hi, hq⟩

/-- the concrete runs: SSE and AVX2 widths, production and sanitizer tails, garbage = `"` (0x22) around the
string, junk = `\` in the local buffer; output = spec (`2 + 40 + 4·1 + 2·5 = 56` bytes) -/
example : run 16 false exAddr (exMem 0x22) 40 275 (fun _ => 0x5C) (fun _ => 0xAA) = .ok (Spec.quote exStr, 63) := by
  rfl
example : run 16 true exAddr (exMem 0x22) 40 275 (fun _ => 0x5C) (fun _ => 0xAA) = .ok (Spec.quote exStr, 63) := by
  rfl
example : run 32 false exAddr (exMem 0x22) 40 275 (fun _ => 0x5C) (fun _ => 0xAA) = .ok (Spec.quote exStr, 79) := by
  rfl
example : run 32 true exAddr (exMem 0x22) 40 275 (fun _ => 0x5C) (fun _ => 0xAA) = .ok (Spec.quote exStr, 79) := by
  rfl
example : (Spec.quote exStr).length = 56 := by decide

/-- the hypotheses of `C09_quote` / `C09_extent` / `C09_reads_mapped` / `C09_independent` are satisfiable
(here with the page after the string unmapped) -/
example (W : Nat) (hW : 0 < W) (hW32 : W ≤ 32) (san : Bool) (g : Nat) (junk fill : Nat → Nat) :
    ∃ ext, run W san exAddr (exMem g) exStr.length 275 junk fill = .ok (Spec.quote exStr, ext) :=
  C09_quote W hW hW32 san exAddr (exMem g) exStr 275 junk fill exStr_bytes (exMem_holds g) (exMem_pages g)
    (by decide)

example : (6 * exStr.length + 2 = 242) ∧ (Spec.quote exStr).length ≤ 242 := ⟨rfl, C09_len exStr⟩

example (W : Nat) (hW : 0 < W) (hW32 : W ≤ 32) (san : Bool) (g : Nat) (junk fill : Nat → Nat) (out : List Nat)
    (ext : Nat) (h : run W san exAddr (exMem g) exStr.length 275 junk fill = .ok (out, ext)) :
    ext ≤ 6 * exStr.length + 35 :=
  (C09_extent W hW hW32 san exAddr (exMem g) exStr 275 junk fill exStr_bytes (exMem_holds g) (exMem_pages g)
    (by decide) out ext h).2.2

example (W : Nat) (hW : 0 < W) (hW32 : W ≤ 32) (san : Bool) (g : Nat) (junk fill : Nat → Nat) :
    run W san exAddr (exMem g) exStr.length 275 junk fill ≠ .error Fault.load :=
  (C09_reads_mapped W hW hW32 san exAddr (exMem g) exStr 275 junk fill exStr_bytes (exMem_holds g)
    (exMem_only g) (by decide)).2

/-- the byte right after the string is unmapped in the example memory -/
example : exMem 0 (exAddr + 40) = none := by decide

example (W : Nat) (hW : 0 < W) (hW32 : W ≤ 32) (san : Bool) (g₁ g₂ : Nat) (j₁ j₂ f₁ f₂ : Nat → Nat) :
    ∃ out e₁ e₂, run W san exAddr (exMem g₁) exStr.length 275 j₁ f₁ = .ok (out, e₁) ∧
      run W san exAddr (exMem g₂) exStr.length 275 j₂ f₂ = .ok (out, e₂) ∧ out = Spec.quote exStr :=
  C09_independent W hW hW32 san exAddr (exMem g₁) (exMem g₂) exStr 275 j₁ j₂ f₁ f₂ exStr_bytes
    (exMem_holds g₁) (fun i h => by rw [exMem_holds g₂ i h, exMem_holds g₁ i h])
    (exMem_pages g₁) (exMem_pages g₂) (by decide)

/-! ## tightness of the extent bound `6n + max 3 (W-5)` -/

/-- one plain byte: the tail stores a whole vector at `dst = 1` (`1 + W = 6·1 + W - 5`) -/
example : run 16 false (0x102000 - 1) (fun p => if 0x101000 ≤ p ∧ p < 0x102000 then some 97 else none)
    1 41 (fun _ => 0) (fun _ => 0) = .ok ([34, 97, 34], 6 * 1 + 11) := by rfl
example : run 32 false (0x102000 - 1) (fun p => if 0x101000 ≤ p ∧ p < 0x102000 then some 97 else none)
    1 41 (fun _ => 0) (fun _ => 0) = .ok ([34, 97, 34], 6 * 1 + 27) := by rfl
/-- a narrow vector (`W = 4`) and one control byte: the 8-byte table store ends at `6·1 + 3` -/
example : run 4 false (0x102000 - 1) (fun p => if 0x101000 ≤ p ∧ p < 0x102000 then some 0 else none)
    1 41 (fun _ => 0) (fun _ => 0) = .ok ([34, 92, 117, 48, 48, 48, 48, 34], 6 * 1 + 3) := by rfl
/-- the capacity is really needed: with one byte less than the tight bound the AVX2 tail store faults -/
example : run 32 false (0x102000 - 1) (fun p => if 0x101000 ≤ p ∧ p < 0x102000 then some 97 else none)
    1 32 (fun _ => 0) (fun _ => 0) = .error Fault.store := by rfl

end Sonic.Props.C09
