import Sonic.Model.Itoa
import Sonic.Spec.Decimal
import Sonic.Spec.Rne
import Sonic.Spec.Shortest
import Sonic.Spec.Json
import Sonic.Model.Quote
import Sonic.Model.Memcmp
import Sonic.Model.Xmemcpy
import Sonic.Model.StringDec
import Sonic.Model.Ftoa
import Sonic.Model.Number
import Sonic.Model.OnDemand
import Sonic.Model.ParseOnDemand
import Sonic.Model.Parse
import Sonic.Model.Serialize
import Sonic.Model.Schema
import Sonic.Model.Lazy
import Sonic.Model.Dom
import Sonic.Model.Pool
import Sonic.Model.Access
import Sonic.Model.DocBuf

/-!
# Line-protocol driver (`sonic_model`)

Reads one command per line on stdin and prints exactly one line per command.  The C++ harness
(`/verif/harness/harness.cpp`) speaks the same protocol against the real implementation; `check.py`
compares the two streams.  Unknown or malformed commands print `bad-op` (never a default value).
-/
namespace Sonic.Driver

def hexDigit (c : Char) : Option Nat :=
  if '0' ≤ c ∧ c ≤ '9' then some (c.toNat - 48)
  else if 'a' ≤ c ∧ c ≤ 'f' then some (c.toNat - 87)
  else if 'A' ≤ c ∧ c ≤ 'F' then some (c.toNat - 55)
  else none

/-- "-" denotes the empty byte string -/
def parseHex (s : String) : Option (List Nat) :=
  if s == "-" then some [] else
  let rec go : List Char → List Nat → Option (List Nat)
    | [], acc => some acc.reverse
    | [_], _ => none
    | a :: b :: rest, acc => do
        let x ← hexDigit a; let y ← hexDigit b
        go rest ((x * 16 + y) :: acc)
  go s.toList []

def hexOf (bs : List Nat) : String :=
  if bs.isEmpty then "-" else
  let hd (n : Nat) : Char := if n < 10 then Char.ofNat (48 + n) else Char.ofNat (87 + n)
  String.ofList (bs.foldr (fun b acc => hd (b / 16 % 16) :: hd (b % 16) :: acc) [])

def dropStr (n : Nat) (s : String) : String := String.ofList (s.toList.drop n)

def specParseStr (bs : List Nat) : String :=
  match Sonic.Spec.Json.parse bs with
  | .ok v => "spec=ok:" ++ v.show
  | .error .malformed => "spec=malformed"
  | .error .infinity => "spec=infinity"

/-- pure (stateless) commands implemented in this file -/
def stepLocal (toks : List String) : String :=
  match toks with
  | ["u64toa", n] =>
    match n.toNat? with
    | some v => if v < 2 ^ 64 then
        let r := Sonic.Model.Itoa.u64toa Sonic.Model.Itoa.zeroBuf 0 v
        s!"{hexOf (Sonic.Model.Itoa.slice r.buf 0 r.out)} ext={r.ext} spec={hexOf (Sonic.Spec.decimal v)}" else "bad-op"
    | none => "bad-op"
  | ["i64toa", n] =>
    match n.toNat? with
    | some v => if v < 2 ^ 64 then
        let r := Sonic.Model.Itoa.i64toa Sonic.Model.Itoa.zeroBuf 0 v
        s!"{hexOf (Sonic.Model.Itoa.slice r.buf 0 r.out)} ext={r.ext} spec={hexOf (Sonic.Spec.decimalI64 v)}" else "bad-op"
    | none => "bad-op"
  | ["rne", neg, m, e] =>
    match m.toNat?, e.toInt? with
    | some mv, some ev =>
      match Sonic.Spec.Rne.round (neg == "1") mv ev with
      | some b => toString b
      | none => "inf"
    | _, _ => "bad-op"
  | ["f64chk", n, hx] =>
    -- property oracle for C07 on an arbitrary printed text (used when the implementation's text differs from the model's)
    match n.toNat?, parseHex hx with
    | some bits, some text =>
      if bits < 2 ^ 64 then
        let cq := Sonic.Spec.Shortest.cqOfBits bits
        match Sonic.Spec.Shortest.parseDecText text with
        | none => "chk=0 rt=0 notnumber"
        | some (neg, sig, exp) =>
          let chk : Bool := if bits % 2 ^ 63 = 0 then sig == 0 else Sonic.Spec.Shortest.chk cq.1 cq.2 sig exp
          let chk := chk && (neg == decide (bits ≥ 2 ^ 63)) && Sonic.Spec.Shortest.hasFracOrExp text
          let rt : Bool := Sonic.Spec.Rne.round neg sig exp == some bits
          s!"chk={if chk then 1 else 0} rt={if rt then 1 else 0}"
      else "bad-op"
    | _, _ => "bad-op"
  | "parse" :: _ :: hexes | "parse-seq" :: _ :: hexes =>
    -- spec part only (the literal parser model adds its own prefix when present)
    match hexes.mapM parseHex with
    | some texts => if texts.isEmpty then "bad-op" else " | ".intercalate (texts.map specParseStr)
    | none => "bad-op"
  | "thr-ro" :: _ | "thr-own" :: _ | "thr-pool" :: _ => Sonic.Model.Access.runLine toks
  | "thr-poolcopy" :: rest => Sonic.Model.Access.runLine ("thr-pool" :: rest)   -- copies share the pool AND its lock: same model
  | ["spec-decimal", n] =>
    match n.toNat? with
    | some v => hexOf (Sonic.Spec.decimal v)
    | none => "bad-op"
  | _ => "bad-op"

/-- state of the stateful sub-protocols (pool, dom, …); `W` = vector width of the build being mirrored -/
structure DState where
  W : Nat := 32
  dom : Sonic.Model.Dom.Session := Sonic.Model.Dom.Session.init
  pool : Sonic.Model.Pool.Session := Sonic.Model.Pool.Session.init

def domEnv (W : Nat) : Sonic.Model.Dom.Env where
  parse := fun bs => match Sonic.Spec.Json.parse bs with | .ok v => some v | .error _ => none
  dump := fun v cap0 nreuse => Sonic.Model.Serialize.dumpVal W v cap0 nreuse

def step (st : DState) (line : String) : DState × String :=
  let toks := (line.trimAscii.toString.splitOn " ").filter (· ≠ "")
  match toks with
  | "quote" :: _ => (st, Sonic.Model.Quote.runLine st.W toks)
  | "atof" :: _ | "prim-el" :: _ | "prim-nf" :: _ | "prim-native" :: _ | "prim-str2int" :: _ =>
    (st, Sonic.Model.Number.runLine toks)
  | "ondemand" :: _ :: hx :: _ =>
    -- model line, plus the spec value of the slice the model returns (`slice=`): lets the judge check
    -- "the slice parses to the value the path resolves to" whenever implementation and model agree on the bounds
    let o := Sonic.Model.OnDemand.runLine st.W toks
    let extra := match o.splitOn " ", parseHex hx with
      | "ok" :: a :: b :: _, some data =>
        match (dropStr 6 a).toNat?, (dropStr 4 b).toNat? with
        | some s, some e => " slice=" ++ dropStr 5 (specParseStr ((data.drop s).take (e - s)))
        | _, _ => ""
      | _, _ => ""
    (st, o ++ extra)
  | "schema" :: _ => (st, Sonic.Model.Schema.runLine toks)
  | "schema-prep1" :: alloc :: hexE :: hexTs | "schema-prep2" :: alloc :: hexE :: hexTs | "schema-prep3" :: alloc :: hexE :: hexTs =>
    -- the existing document is first changed through the mutation API: every object-valued member of the root object is emptied
    -- member by member (it keeps its capacity - and its lookup map, if any); its VALUE is then `{}`.  ParseSchema is judged on that value.
    (st, if hexTs.isEmpty || !(alloc == "pool" || alloc == "simple" || alloc == "track") then "bad-op" else
      match Sonic.Model.Schema.unhex hexE, hexTs.mapM Sonic.Model.Schema.unhex with
      | some ex, some texts =>
        match Sonic.Spec.Json.parse ex with
        | .error _ => "bad-input"
        | .ok e =>
          let e' : Sonic.Spec.JVal := match e with
            | .obj kvs => .obj (kvs.map fun kv => match kv.2 with | .obj _ => (kv.1, .obj []) | v => (kv.1, v))
            | v => v
          " | ".intercalate (Sonic.Model.Schema.runTexts (some e') (some e') texts) ++ (if alloc == "track" then " ledger=ok" else "")
      | _, _ => "bad-op")
  | "schema-swap" :: rest | "schema-reparse" :: rest | "schema-copy" :: rest => (st, Sonic.Model.Schema.runLine ("schema" :: rest))  -- the copy read-back is judged against the final tree
  | "docbuf" :: rest => (st, Sonic.Model.DocBuf.runLine rest)
  | "lazy" :: _ => (st, Sonic.Model.Lazy.runLine st.W toks)
  | "ser" :: _ => (st, Sonic.Model.Serialize.runLine st.W toks)
  | "serv" :: _ :: rest => (st, Sonic.Model.Serialize.runLine st.W ("ser" :: "256" :: rest))  -- string values as views next to an unmapped page: same bytes
  | "pod" :: _ => (st, Sonic.Model.OnDemand.runPodLine st.W toks)
  | "parse" :: _ | "parse-seq" :: _ => (st, Sonic.Model.Parse.runLine st.W toks)
  | ["slice-spec", hx, a, b] =>
    match parseHex hx, a.toNat?, b.toNat? with
    | some data, some s, some e => (st, dropStr 5 (specParseStr ((data.drop s).take (e - s))))
    | _, _, _ => (st, "bad-op")
  | "f64toa" :: _ => (st, Sonic.Model.Ftoa.runLine toks)
  | "memcmp" :: _ => (st, Sonic.Model.Memcmp.runLine toks)
  | "xmemcpy" :: _ => (st, Sonic.Model.Xmemcpy.runLine st.W toks)
  | "parsestr" :: _ => (st, Sonic.Model.StringDec.runLine st.W toks)
  | c :: _ =>
    if c.startsWith "pool-" then
      let (p', o) := Sonic.Model.Pool.runLine st.pool toks
      ({ st with pool := p' }, o)
    else if c.startsWith "dom-" then
      let (d', o) := Sonic.Model.Dom.runLine (domEnv st.W) st.dom toks
      ({ st with dom := d' }, o)
    else (st, stepLocal toks)
  | _ => (st, stepLocal toks)

partial def loop (h : IO.FS.Stream) (out : IO.FS.Stream) (st : DState) : IO Unit := do
  let line ← h.getLine
  if line.isEmpty then
    out.flush
    return ()
  let (st', o) := step st line
  out.putStrLn o
  loop h out st'

def main (args : List String) : IO Unit := do
  let stdin ← IO.getStdin
  let stdout ← IO.getStdout
  let w := match args with
    | a :: _ => (a.toNat?).getD 32
    | [] => 32
  loop stdin stdout { W := w }

end Sonic.Driver
