/-!
# Spec: canonical decimal spelling of a natural number / 64-bit signed integer (as ASCII codes)

Written independently of the implementation.  `decimal n` is the usual "divide by ten" definition; it is
related to Lean's own `Nat.toDigits 10` in `Sonic/Proofs/Decimal.lean`.
-/
namespace Sonic.Spec

/-- canonical decimal digits of `n` as ASCII codes, most significant first; `decimal 0 = "0"` -/
def decimal (n : Nat) : List Nat :=
  if h : n < 10 then [48 + n] else decimal (n / 10) ++ [48 + n % 10]
decreasing_by omega

/-- value of a list of ASCII digits (no validation: used on outputs proved to be digits) -/
def decValue (ds : List Nat) : Nat := ds.foldl (fun acc d => acc * 10 + (d - 48)) 0

def isDigit (d : Nat) : Bool := 48 ≤ d && d ≤ 57

/-- canonical: non-empty, all digits, no leading zero unless the whole string is "0" -/
def canonical (ds : List Nat) : Bool :=
  !ds.isEmpty && ds.all isDigit && (ds.length == 1 || ds.head? != some 48)

/-- `k` digits with leading zeros -/
def digitsW : Nat → Nat → List Nat
  | 0, _ => []
  | k + 1, n => digitsW k (n / 10) ++ [48 + n % 10]

/-- spelling of the signed 64-bit integer whose two's-complement bit pattern is `bits` -/
def decimalI64 (bits : Nat) : List Nat :=
  if bits ≥ 2 ^ 63 then 45 :: decimal (2 ^ 64 - bits) else decimal bits

end Sonic.Spec
