import Sonic.Spec.Rne
import Sonic.Spec.JsonTypes

/-!
# Spec: reading one JSON number (RFC 8259 §6) and its value (property C04)

Written from the grammar
`number = [ minus ] int [ frac ] [ exp ]`, `int = zero / ( digit1-9 *DIGIT )`, `frac = "." 1*DIGIT`,
`exp = ("e" / "E") [ "-" / "+" ] 1*DIGIT`
and from the property text, *not* from the implementation:

* a text without fraction and exponent is an integer: non-negative and `< 2^64` → `uint`, negative and
  `≥ -2^63` → `sint` (`-0` is the unsigned `0`);
* every other number is the binary64 nearest to the exact decimal value, ties to even (`Spec.Rne.round`);
  a value that rounds to ±∞ is reported as `infinity`.

The decimal is exact: the mantissa is the `Nat` made of all integer and fraction digits, the exponent is the
written exponent (an unbounded `Int`) minus the number of fraction digits.

`scanToken` reads the longest prefix that matches the grammar; it answers `none` (malformed) when there is no such
prefix or when the text commits to a part that it then does not complete (`-` without a digit, `.` without a
digit, `e`/`E` (and an optional sign) without a digit).  A leading `0` followed by further digits ends the token
after the `0` (the caller then sees the digit as trailing garbage).
-/
namespace Sonic.Spec.Number

open Sonic.Spec

def isDigit (c : Nat) : Bool := 48 ≤ c && c ≤ 57

/-- the leading run of ASCII digits -/
def takeDigits (s : List Nat) : List Nat := s.takeWhile isDigit

/-- value of a list of ASCII digits, most significant first -/
def digitsVal (ds : List Nat) : Nat := ds.foldl (fun a c => a * 10 + (c - 48)) 0

/-- one number token -/
structure Token where
  neg : Bool
  /-- `"0"` or `[1-9][0-9]*` -/
  intDigits : List Nat
  /-- `none`: no fraction part; `some ds`: `"." ds`, `ds` non-empty -/
  fracDigits : Option (List Nat)
  /-- written exponent (with its sign) and the number of bytes of the exponent part (`e`, sign, digits) -/
  exp : Option (Int × Nat)
  deriving Repr, DecidableEq

/-- `int` part -/
def scanInt (s : List Nat) : Option (List Nat) :=
  match s with
  | [] => none
  | c :: _ =>
    if c = 48 then some [48]
    else if isDigit c then some (takeDigits s)
    else none

/-- `[ frac ]` : outer `none` = malformed -/
def scanFrac (s : List Nat) : Option (Option (List Nat)) :=
  match s with
  | 46 :: r => if takeDigits r = [] then none else some (some (takeDigits r))
  | _ => some none

/-- optional sign of the exponent: its value and its length -/
def expSign (r : List Nat) : Int × Nat :=
  match r with
  | 43 :: _ => (1, 1)
  | 45 :: _ => (-1, 1)
  | _ => (1, 0)

/-- `[ exp ]` : outer `none` = malformed; otherwise the written exponent and the number of bytes of the part -/
def scanExp (s : List Nat) : Option (Option (Int × Nat)) :=
  match s with
  | [] => some none
  | c :: r =>
    if c = 101 ∨ c = 69 then
      let ds := takeDigits (r.drop (expSign r).2)
      if ds = [] then none
      else some (some ((expSign r).1 * (digitsVal ds : Int), 1 + (expSign r).2 + ds.length))
    else some none

def signLen (s : List Nat) : Nat := match s with | 45 :: _ => 1 | _ => 0

/-- number of bytes of the fraction part (`.` and digits) -/
def fracBytes : Option (List Nat) → Nat
  | none => 0
  | some fs => 1 + fs.length

/-- written exponent (`0` if there is no exponent part) -/
def expVal : Option (Int × Nat) → Int
  | none => 0
  | some (e, _) => e

/-- number of bytes of the exponent part -/
def expLen : Option (Int × Nat) → Nat
  | none => 0
  | some (_, n) => n

def scanToken (s : List Nat) : Option Token :=
  let neg := signLen s == 1
  let s1 := s.drop (signLen s)
  match scanInt s1 with
  | none => none
  | some ids =>
    let s2 := s1.drop ids.length
    match scanFrac s2 with
    | none => none
    | some fr =>
      let s3 := s2.drop (fracBytes fr)
      match scanExp s3 with
      | none => none
      | some ex => some { neg := neg, intDigits := ids, fracDigits := fr, exp := ex }

/-- number of bytes of a token -/
def Token.len (t : Token) : Nat :=
  (if t.neg then 1 else 0) + t.intDigits.length + fracBytes t.fracDigits + expLen t.exp

/-- all integer and fraction digits as one number -/
def Token.mantissa (t : Token) : Nat := digitsVal (t.intDigits ++ t.fracDigits.getD [])

/-- decimal exponent: the token denotes `±mantissa · 10^exponent` exactly -/
def Token.exponent (t : Token) : Int :=
  expVal t.exp - ((t.fracDigits.getD []).length : Int)

def Token.isInteger (t : Token) : Bool := t.fracDigits.isNone && t.exp.isNone

/-- the value a token must be stored as -/
def Token.value (t : Token) : Option JNum :=
  let m := t.mantissa
  if t.isInteger && !t.neg && m < 2 ^ 64 then some (.uint m)
  else if t.isInteger && t.neg && m = 0 then some (.uint 0)
  else if t.isInteger && t.neg && m ≤ 2 ^ 63 then some (.sint (-(m : Int)))
  else (Rne.round t.neg m t.exponent).map .real

/-- Read the number that starts at index `start` of `buf`. -/
def scanNumber (buf : List Nat) (start : Nat) : NumResult :=
  match scanToken (buf.drop start) with
  | none => .malformed
  | some t =>
    match t.value with
    | some v => .ok v (start + t.len)
    | none => .infinity (start + t.len)

end Sonic.Spec.Number
