import Sonic.Spec.JsonTypes
import Sonic.Spec.Quote
import Sonic.Spec.Decimal

/-!
# Spec: the reference JSON printer (property C06)

The obvious recursive printer, written from the property text and RFC 8259, independently of `SerializeImpl`:

* `null`, `true`, `false`;
* an unsigned integer prints as its canonical decimal spelling (`Spec.decimal`), a negative integer as `-` followed
  by the decimal spelling of its magnitude (for a well-formed `sint n`, `n < 0`, this is `Spec.decimalI64` of the
  two's-complement pattern of `n`);
* a binary64 prints as the text chosen by the parameter `ftoa : bits ↦ text` (the shortest-round-trip printer is the
  subject of C07; the spec here only needs *a* printer).  `ftoa bits = none` means "not printable" (non-finite) and
  makes the whole rendering `none`;
* strings and member names are quoted by `Spec.quote`;
* arrays `[a,b]`, objects `{"k":v,"l":w}`; no whitespace; members in order, duplicates kept.
-/
namespace Sonic.Spec.Render
open Sonic.Spec

/-- is this bit pattern a finite binary64 (biased exponent field ≠ 2047)? -/
def finiteBits (bits : Nat) : Bool := bits / 2 ^ 52 % 2 ^ 11 != 2047

def numFinite : JNum → Bool
  | .real bits => finiteBits bits
  | _ => true

mutual
/-- no non-finite double anywhere in the document -/
def AllFinite : JVal → Bool
  | .num n => numFinite n
  | .arr xs => allFiniteList xs
  | .obj kvs => allFiniteMems kvs
  | _ => true
def allFiniteList : List JVal → Bool
  | [] => true
  | x :: xs => AllFinite x && allFiniteList xs
def allFiniteMems : List (List Nat × JVal) → Bool
  | [] => true
  | (_, v) :: kvs => AllFinite v && allFiniteMems kvs
end

/-! ## well-formed values: what a document of the library can hold -/

/-- `uint` below `2^64`, `sint` in `[-2^63, 0)` (a non-negative integer is stored as `uint`), a 64-bit pattern -/
def numWF : JNum → Bool
  | .uint n => decide (n < 2 ^ 64)
  | .sint n => decide (-(2 ^ 63 : Int) ≤ n) && decide (n < 0)
  | .real bits => decide (bits < 2 ^ 64)

def bytesWF (s : List Nat) : Bool := s.all (fun b => decide (b < 256))

mutual
/-- numbers in range, string and key contents are bytes -/
def WF : JVal → Bool
  | .num n => numWF n
  | .str s => bytesWF s
  | .arr xs => wfList xs
  | .obj kvs => wfMems kvs
  | _ => true
def wfList : List JVal → Bool
  | [] => true
  | x :: xs => WF x && wfList xs
def wfMems : List (List Nat × JVal) → Bool
  | [] => true
  | (k, v) :: kvs => bytesWF k && WF v && wfMems kvs
end

def litNull : List Nat := [0x6E, 0x75, 0x6C, 0x6C]
def litTrue : List Nat := [0x74, 0x72, 0x75, 0x65]
def litFalse : List Nat := [0x66, 0x61, 0x6C, 0x73, 0x65]

def renderNum (ftoa : Nat → Option (List Nat)) : JNum → Option (List Nat)
  | .uint n => some (decimal n)
  | .sint n => some (45 :: decimal n.natAbs)
  | .real bits => ftoa bits

mutual
def render (ftoa : Nat → Option (List Nat)) : JVal → Option (List Nat)
  | .null => some litNull
  | .bool true => some litTrue
  | .bool false => some litFalse
  | .num n => renderNum ftoa n
  | .str s => some (quote s)
  | .arr xs =>
    match renderElems ftoa xs with
    | some b => some (0x5B :: b ++ [0x5D])
    | none => none
  | .obj kvs =>
    match renderMembers ftoa kvs with
    | some b => some (0x7B :: b ++ [0x7D])
    | none => none
/-- elements separated by `,` -/
def renderElems (ftoa : Nat → Option (List Nat)) : List JVal → Option (List Nat)
  | [] => some []
  | x :: xs =>
    match render ftoa x, renderElems ftoa xs with
    | some a, some b => some (if xs.isEmpty then a else a ++ 0x2C :: b)
    | _, _ => none
/-- `"key":value` separated by `,` -/
def renderMembers (ftoa : Nat → Option (List Nat)) : List (List Nat × JVal) → Option (List Nat)
  | [] => some []
  | (k, v) :: kvs =>
    match render ftoa v, renderMembers ftoa kvs with
    | some a, some b => some (if kvs.isEmpty then quote k ++ 0x3A :: a else quote k ++ 0x3A :: a ++ 0x2C :: b)
    | _, _ => none
end

end Sonic.Spec.Render
