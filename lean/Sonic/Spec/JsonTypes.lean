/-!
# Spec: JSON values as the properties talk about them

Numbers keep their *kind* (C03/C04/C18 distinguish `1` from `1.0`): an unsigned 64-bit integer, a negative
signed 64-bit integer, or a binary64 given by its bit pattern.  Strings and keys are byte lists (no UTF-8
validation, as in the implementation).  Objects are ordered lists of members (duplicates allowed).
-/
namespace Sonic.Spec

inductive JNum where
  | uint (n : Nat)       -- 0 ≤ n < 2^64
  | sint (n : Int)       -- -2^63 ≤ n < 0
  | real (bits : Nat)    -- IEEE-754 binary64 bit pattern, finite
  deriving Repr, DecidableEq, Inhabited

inductive JVal where
  | null
  | bool (b : Bool)
  | num (n : JNum)
  | str (s : List Nat)
  | arr (xs : List JVal)
  | obj (kvs : List (List Nat × JVal))
  deriving Repr, Inhabited

/-- result of reading one number token -/
inductive NumResult where
  | ok (v : JNum) (next : Nat)     -- well-formed, finite; `next` = index just after the token
  | infinity (next : Nat)          -- well-formed but the correctly rounded value is ±∞
  | malformed                      -- not an RFC 8259 `number`
  deriving Repr, DecidableEq, Inhabited

end Sonic.Spec
