import Sonic.Spec.JsonTypes

/-!
# Spec: the two merge operations of the property statements C19 (`ParseSchema`) and C20 (`UpdateLazy`)

Written from the statements, independently of the implementation.  An object is an ordered member list; a key is
looked up by its decoded bytes, first match.

* `schema e t` (C19): *"keeps that document's set of keys at every object level that is a non-empty object on both
  sides, replaces the value of each declared key that the text provides (recursing when both sides are non-empty
  objects, otherwise taking the text's value whole), leaves declared keys the text omits unchanged, ignores
  undeclared keys, and replaces the whole value where the existing side is not a non-empty object."*
* `update t s` (C20): *"where both sides are objects (and the target is non-empty) every source member replaces or
  recursively merges into the target member with the same decoded key and new keys are appended, and in every other
  case the source value replaces the target value; untouched values keep their meaning."*
* `noDupKeys v`: no object anywhere inside `v` has two members with the same key.
-/
namespace Sonic.Spec.Merge
open Sonic.Spec

abbrev Members := List (List Nat × JVal)

/-- value of the first member named `k` -/
def lookup (k : List Nat) : Members → Option JVal
  | [] => none
  | (k', v) :: rest => if k' = k then some v else lookup k rest

def keys (kvs : Members) : List (List Nat) := kvs.map Prod.fst

def hasKey (k : List Nat) (kvs : Members) : Bool := (keys kvs).contains k

/-- replace the value `v` of the first member named `k` by `f v` (no such member: unchanged) -/
def modifyFirst (k : List Nat) (f : JVal → JVal) : Members → Members
  | [] => []
  | (k', v) :: rest => if k' = k then (k', f v) :: rest else (k', v) :: modifyFirst k f rest

def isNonEmptyObj : JVal → Bool
  | .obj (_ :: _) => true
  | _ => false

mutual
/-- C19: parse the text value `t` "into" the existing value `e` -/
def schema : JVal → JVal → JVal
  | .obj (m :: ms), .obj (tm :: tms) => .obj (schemaMembers (m :: ms) (tm :: tms))
  | _, t => t
/-- every declared member, in order: replaced (recursively) if the text provides the key, else unchanged -/
def schemaMembers : Members → Members → Members
  | [], _ => []
  | (k, ev) :: rest, tkvs =>
    (match lookup k tkvs with
     | some tv => (k, schema ev tv)
     | none => (k, ev)) :: schemaMembers rest tkvs
end

mutual
/-- C20: merge the source value `s` into the target value `t` -/
def update : JVal → JVal → JVal
  | .obj (m :: ms), .obj skvs => .obj (updateMembers (m :: ms) skvs)
  | _, s => s
/-- the source members in order: merge into the (first) target member of the same key, or append -/
def updateMembers : Members → Members → Members
  | tkvs, [] => tkvs
  | tkvs, (k, v) :: rest =>
    updateMembers
      (if hasKey k tkvs then modifyFirst k (fun tv => update tv v) tkvs else tkvs ++ [(k, v)]) rest
end

/-- pairwise distinct -/
def distinct : List (List Nat) → Bool
  | [] => true
  | k :: ks => !ks.contains k && distinct ks

mutual
/-- no object inside the value has two members with the same key -/
def noDupKeys : JVal → Bool
  | .arr xs => noDupList xs
  | .obj kvs => distinct (keys kvs) && noDupMembers kvs
  | _ => true
def noDupList : List JVal → Bool
  | [] => true
  | x :: xs => noDupKeys x && noDupList xs
def noDupMembers : Members → Bool
  | [] => true
  | (_, v) :: rest => noDupKeys v && noDupMembers rest
end

end Sonic.Spec.Merge
