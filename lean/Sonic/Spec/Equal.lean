import Sonic.Spec.JsonTypes

/-!
# Spec: equality of JSON values (property C18)

Written from the statement: arrays are equal element-wise in order; objects are equal as key-to-value maps
regardless of member order (same number of members and every key of the left value maps, in the right value, to an
equal value); strings by bytes; numbers by kind and exact value / bit pattern (`1 ≠ 1.0`, `-0.0 ≠ 0.0`, a NaN pattern
equals itself); null / booleans by value; different kinds are never equal.
`noDupKeys v`: no object anywhere in `v` has two members with the same key — the domain on which "objects as
key-to-value maps" makes sense and on which `eqv` is an equivalence relation.
-/
namespace Sonic.Spec.Equal
open Sonic.Spec

/-- value of the first member named `k` -/
def lookup (k : List Nat) : List (List Nat × JVal) → Option JVal
  | [] => none
  | (k', v) :: r => if k' == k then some v else lookup k r

mutual
def eqv : JVal → JVal → Bool
  | .null, b => match b with | .null => true | _ => false
  | .bool x, b => match b with | .bool y => x == y | _ => false
  | .num x, b => match b with | .num y => x == y | _ => false
  | .str x, b => match b with | .str y => x == y | _ => false
  | .arr xs, b => match b with | .arr ys => eqvList xs ys | _ => false
  | .obj kvs, b => match b with | .obj kvs' => kvs.length == kvs'.length && subMap kvs kvs' | _ => false
/-- same length and pointwise `eqv` -/
def eqvList : List JVal → List JVal → Bool
  | [], ys => ys.isEmpty
  | x :: xs, ys => match ys with | y :: ys' => eqv x y && eqvList xs ys' | [] => false
/-- every member of the left list has, under its key, an `eqv` value in the right list -/
def subMap : List (List Nat × JVal) → List (List Nat × JVal) → Bool
  | [], _ => true
  | (k, v) :: kvs, b => (match lookup k b with | some w => eqv v w | none => false) && subMap kvs b
end

mutual
def noDupKeys : JVal → Bool
  | .null => true
  | .bool _ => true
  | .num _ => true
  | .str _ => true
  | .arr xs => noDupList xs
  | .obj kvs => decide ((kvs.map (·.1)).Nodup) && noDupMems kvs
def noDupList : List JVal → Bool
  | [] => true
  | x :: xs => noDupKeys x && noDupList xs
def noDupMems : List (List Nat × JVal) → Bool
  | [] => true
  | (_, v) :: kvs => noDupKeys v && noDupMems kvs
end

end Sonic.Spec.Equal
