/-!
# Spec: exact round-to-nearest-even from a decimal `±m·10^e` to IEEE-754 binary64

Written from the IEEE-754 definition with unbounded `Nat` arithmetic; no tables, no fast paths.
`roundRat num den` rounds the positive rational `num/den` to the nearest binary64 magnitude (ties to even)
and returns its 63 low bits (biased exponent and fraction), or `none` when the rounded value is infinite.
-/
namespace Sonic.Spec.Rne

/-- smallest `k` with `n < 2^k` (`0` for `n = 0`) -/
def bitLen (n : Nat) : Nat := if n = 0 then 0 else Nat.log2 n + 1

/-- `⌊num·2^s / den⌋` for an integer (possibly negative) shift `s`, together with "remainder is non-zero" -/
def scaledDiv (num den : Nat) (s : Int) : Nat × Bool :=
  match s with
  | .ofNat k => let n := num * 2 ^ k; (n / den, n % den != 0)
  | .negSucc k => let d := den * 2 ^ (k + 1); (num / d, num % d != 0)

/-- binary exponent `e` with `2^e ≤ num/den < 2^(e+1)` (`num, den > 0`) -/
def floorLog2Rat (num den : Nat) : Int :=
  let e0 : Int := (bitLen num : Int) - (bitLen den : Int)   -- num/den ∈ (2^(e0-1), 2^(e0+1))
  -- is num/den ≥ 2^e0 ?
  let ge : Bool := match e0 with
    | .ofNat k => decide (num ≥ den * 2 ^ k)
    | .negSucc k => decide (num * 2 ^ (k + 1) ≥ den)
  if ge then e0 else e0 - 1

/-- Round the positive rational `num/den` (`num > 0`, `den > 0`) to binary64, ties to even.
    Result: the 63-bit magnitude pattern `biasedExp·2^52 + fraction`, `none` = overflow to infinity. -/
def roundRat (num den : Nat) : Option Nat :=
  let e := floorLog2Rat num den
  -- exponent of the unit in the last place: normal numbers have 53 significant bits, subnormals are
  -- multiples of 2^-1074
  let ulpExp : Int := if e - 52 < -1074 then -1074 else e - 52
  -- q = ⌊(num/den) / 2^ulpExp · 2⌋ : one extra bit (the half bit); sticky = anything below
  let (q2, sticky) := scaledDiv num den (1 - ulpExp)
  let q := q2 / 2
  let half := q2 % 2 == 1
  let roundUp := half && (sticky || q % 2 == 1)
  let q' := if roundUp then q + 1 else q
  -- q' < 2^53 or q' = 2^53 (carry into the next binade); it is a multiple of the ulp
  if q' = 0 then some 0
  else
    -- normalise: value = q' · 2^ulpExp
    let (sig, ex) := if q' ≥ 2 ^ 53 then (q' / 2, ulpExp + 1) else (q', ulpExp)
    if sig < 2 ^ 52 then
      -- subnormal (only possible when ulpExp = -1074)
      some sig
    else
      let biased : Int := ex + 52 + 1023
      if biased ≥ 2047 then none
      else some (biased.toNat * 2 ^ 52 + (sig - 2 ^ 52))

/-- Correctly rounded binary64 bit pattern of `(-1)^neg · m · 10^e10`; `none` = rounds to ±infinity.
    Exponents far outside the binary64 range are clamped first (the result is unchanged: see `clamp` lemmas). -/
def round (neg : Bool) (m : Nat) (e10 : Int) : Option Nat :=
  let sign := if neg then 2 ^ 63 else 0
  if m = 0 then some sign
  else
    -- number of decimal digits of m bounds the magnitude: 10^(d-1) ≤ m < 10^d
    let d : Int := ((Nat.toDigits 10 m).length : Int)
    if e10 + d > 400 then none                 -- ≥ 10^399: far above the largest double
    else if e10 + d < -400 then some sign      -- < 10^-400: far below half the smallest subnormal
    else
      let r := match e10 with
        | .ofNat k => roundRat (m * 10 ^ k) 1
        | .negSucc k => roundRat m (10 ^ (k + 1))
      r.map (· + sign)

/-- decidable check used to validate implementation outputs per input: `bits` is the correctly rounded
    value of the decimal -/
def isRound (neg : Bool) (m : Nat) (e10 : Int) (bits : Nat) : Bool := round neg m e10 == some bits

end Sonic.Spec.Rne
