import Sonic.Spec.Decimal

/-!
# Spec: "shortest decimal that reads back to the same double, closest among the shortest"

Written from the IEEE-754 definition of round-to-nearest-even, independently of the printing algorithm.

A finite positive binary64 value is `v = c·2^q` with `0 < c < 2^53`, `-1074 ≤ q ≤ 971` and `2^52 ≤ c` unless
`q = -1074` (subnormals).  Its neighbours are `(c+1)·2^q` above and, below, `(c-1)·2^q` — except at the start
of a binade (`c = 2^52`, `q > -1074`) where the lower neighbour is only half as far away.  A reader that rounds
to nearest, ties to even, returns `v` for exactly the real numbers between the two midpoints, the midpoints
themselves included iff `c` is even.

* Prop level (`RoundTrips`, `MinimalDigits`, `ClosestAmongMinimal`): stated over `Rat` (exact rationals).
* Bool level (`inInterval`, `chk`): integer cross-multiplication only (`Nat`), evaluated by the driver per input;
  `chk_sound` (proved in `Sonic/Proofs/FtoaChk.lean`) says the Bool level implies the Prop level.
* `parseDecText`: exact meaning `(neg, sig, exp)` of a JSON number text, trailing zeros of `sig` stripped.
-/
namespace Sonic.Spec.Shortest
open Sonic.Spec (decimal)

/-! ## exact values -/

/-- `sig · 10^exp` -/
def decVal (sig : Nat) (exp : Int) : Rat := (sig : Rat) * (10 : Rat) ^ exp

/-- `c · 2^q` -/
def dblVal (c : Nat) (q : Int) : Rat := (c : Rat) * (2 : Rat) ^ q

/-- `(c, q)` is the significand/exponent pair of a finite positive double -/
def ValidCQ (c : Nat) (q : Int) : Prop :=
  0 < c ∧ c < 2 ^ 53 ∧ -1074 ≤ q ∧ q ≤ 971 ∧ (q ≠ -1074 → 2 ^ 52 ≤ c)

instance (c : Nat) (q : Int) : Decidable (ValidCQ c q) := by unfold ValidCQ; infer_instance

/-- start of a binade: the gap below is half the gap above -/
def irregular (c : Nat) (q : Int) : Bool := c == 2 ^ 52 && decide (-1074 < q)

/-- the next double above (for the largest double: the value `2^1024` that would come next) -/
def succVal (c : Nat) (q : Int) : Rat := dblVal (c + 1) q

/-- the next double below (`0` below the smallest subnormal) -/
def predVal (c : Nat) (q : Int) : Rat :=
  if irregular c q then dblVal (2 * c - 1) (q - 1) else dblVal (c - 1) q

def lowerMid (c : Nat) (q : Int) : Rat := (predVal c q + dblVal c q) / 2
def upperMid (c : Nat) (q : Int) : Rat := (dblVal c q + succVal c q) / 2

/-- `x` rounds (to nearest, ties to even) to `c·2^q` -/
def InInterval (c : Nat) (q : Int) (x : Rat) : Prop :=
  if c % 2 = 0 then lowerMid c q ≤ x ∧ x ≤ upperMid c q else lowerMid c q < x ∧ x < upperMid c q

/-- number of decimal digits of `s` (`1` for `s = 0`); structural, so it evaluates in the kernel -/
def nDigitsAux : Nat → Nat → Nat
  | 0, _ => 1
  | f + 1, s => if s < 10 then 1 else nDigitsAux f (s / 10) + 1

def nDigits (s : Nat) : Nat := nDigitsAux s s

/-- distance of two rationals -/
def dist (a b : Rat) : Rat := if a ≤ b then b - a else a - b

/-- every correctly rounding reader returns `c·2^q` for the decimal `sig·10^exp` -/
def RoundTrips (c : Nat) (q : Int) (sig : Nat) (exp : Int) : Prop := InInterval c q (decVal sig exp)

/-- no decimal with fewer significant digits reads back as `c·2^q` -/
def MinimalDigits (c : Nat) (q : Int) (sig : Nat) (_exp : Int) : Prop :=
  ∀ (s' : Nat) (e' : Int), 0 < s' → InInterval c q (decVal s' e') → nDigits sig ≤ nDigits s'

/-- among the decimals with the same number of digits that read back as `c·2^q`, none is strictly closer to
    `c·2^q`; and if another one is exactly as close, `sig` is even (the tie rule of the algorithm) -/
def ClosestAmongMinimal (c : Nat) (q : Int) (sig : Nat) (exp : Int) : Prop :=
  ∀ (s' : Nat) (e' : Int), 0 < s' → nDigits s' = nDigits sig → InInterval c q (decVal s' e') →
    dist (decVal sig exp) (dblVal c q) ≤ dist (decVal s' e') (dblVal c q) ∧
    (dist (decVal sig exp) (dblVal c q) = dist (decVal s' e') (dblVal c q) →
      decVal s' e' ≠ decVal sig exp → sig % 2 = 0)

/-! ## Bool level: integer cross-multiplication -/

/-- `t·10^e ⋚ L·2^f  ⇔  t·scaleA e f ⋚ L·scaleB e f` -/
def scaleA (e f : Int) : Nat := 10 ^ e.toNat * 2 ^ (-f).toNat
def scaleB (e f : Int) : Nat := 2 ^ f.toNat * 10 ^ (-e).toNat

/-- interval end points in units of `2^(q-2)` (the value itself is `4c`) -/
def loUnits (c : Nat) (q : Int) : Nat := if irregular c q then 4 * c - 1 else 4 * c - 2
def hiUnits (c : Nat) : Nat := 4 * c + 2

/-- the decimal `sig·10^exp` lies in the rounding interval of `c·2^q` -/
def inInterval (c : Nat) (q : Int) (sig : Nat) (exp : Int) : Bool :=
  let A := scaleA exp (q - 2)
  let B := scaleB exp (q - 2)
  if c % 2 = 0 then decide (loUnits c q * B ≤ sig * A) && decide (sig * A ≤ hiUnits c * B)
  else decide (loUnits c q * B < sig * A) && decide (sig * A < hiUnits c * B)

/-- `⌈x / k⌉` -/
def ceilDiv (x k : Nat) : Nat := (x + k - 1) / k

/-- there is NO `s` with exactly `n` digits (`10^(n-1) ≤ s < 10^n`) and `a ≤ s·10^j < bE` -/
def noCand (a bE n j : Nat) : Bool :=
  let P := 10 ^ j
  decide (min (ceilDiv bE P) (10 ^ n) ≤ max (ceilDiv a P) (10 ^ (n - 1)))

def noCands (a bE n : Nat) (js : List Nat) : Bool := js.all (noCand a bE n)

/-- The integers `t` with `t·10^e0` in the rounding interval of `c·2^q` are exactly `tmin ≤ t < tmaxE`
    (`A = scaleA e0 (q-2)`, `B = scaleB e0 (q-2)`: `t·10^e0` is compared with `L·2^(q-2)` as `t·A` with `L·B`). -/
def tRange (c : Nat) (q e0 : Int) : Nat × Nat :=
  let A := scaleA e0 (q - 2)
  let B := scaleB e0 (q - 2)
  let L := loUnits c q * B
  let H := hiUnits c * B
  if c % 2 = 0 then (ceilDiv L A, H / A + 1) else (L / A + 1, ceilDiv H A)

/-- No `n`-digit decimal in the interval is strictly closer to the value than `X` (all in units of `10^e0`,
    on the integer scale: `X·A` against `V = 4c·B`), and the mirror image of `X` (exactly as close), if it is such
    a candidate, forces `sig` even. -/
def chkClosest (A V tmin tmaxE X n sig : Nat) : Bool :=
  let XA := X * A
  if XA = V then true
  else if V < XA then
    let cmin := if XA ≤ 2 * V then (2 * V - XA) / A + 1 else 0
    noCands (max tmin cmin) (min tmaxE X) n [0, 1, 2] &&
    (sig % 2 == 0 || !(decide (XA ≤ 2 * V) && (2 * V - XA) % A == 0) ||
      noCands (max tmin ((2 * V - XA) / A)) (min tmaxE ((2 * V - XA) / A + 1)) n [0, 1, 2])
  else
    noCands (max tmin (X + 1)) (min tmaxE (ceilDiv (2 * V - XA) A)) n [0, 1, 2] &&
    (sig % 2 == 0 || !((2 * V - XA) % A == 0) ||
      noCands (max tmin ((2 * V - XA) / A)) (min tmaxE ((2 * V - XA) / A + 1)) n [0, 1, 2])

/-- Decidable certificate that `sig·10^exp` is the shortest, closest decimal in the rounding interval of
    `c·2^q`.  All quantities are integers in units of `10^(exp-1)`: a decimal `s·10^(exp-1+j)` is the
    integer `t = s·10^j`.
    (1) `sig·10^exp` (the integer `10·sig`) is in the interval;
    (2) nothing with `n-1` digits (hence nothing shorter) is: such a decimal has `j ∈ {1,2,3}`;
    (3) nothing with `n` digits (`j ∈ {0,1,2}`) is strictly closer, and the tie rule. -/
def chk (c : Nat) (q : Int) (sig : Nat) (exp : Int) : Bool :=
  let r := tRange c q (exp - 1)
  let n := nDigits sig
  decide (0 < sig) && decide (r.1 ≤ 10 * sig) && decide (10 * sig < r.2) &&
  (n == 1 || noCands r.1 r.2 (n - 1) [1, 2, 3]) &&
  chkClosest (scaleA (exp - 1) (q - 2)) (4 * c * scaleB (exp - 1) (q - 2)) r.1 r.2 (10 * sig) n sig

/-! ## exact meaning of a JSON number text -/

def isDig (c : Nat) : Bool := decide (48 ≤ c) && decide (c ≤ 57)

/-- longest prefix of ASCII digits (as values `0..9`) and the rest -/
def spanDigits : List Nat → List Nat × List Nat
  | [] => ([], [])
  | c :: cs => if isDig c then ((c - 48) :: (spanDigits cs).1, (spanDigits cs).2) else ([], c :: cs)

/-- value of a list of digit values, most significant first -/
def valOf (ds : List Nat) : Nat := ds.foldl (fun a d => a * 10 + d) 0

def stripTrailingZeros (ds : List Nat) : List Nat := (ds.reverse.dropWhile (· == 0)).reverse

/-- optional fraction: `.` digits+ -/
def parseFrac (t : List Nat) : Option (List Nat × List Nat) :=
  if t.head? = some 46 then
    (if (spanDigits t.tail).1.isEmpty then none else some (spanDigits t.tail))
  else some ([], t)

/-- optional exponent `(e|E) (+|-)? digits+`, which must end the text -/
def parseExp (t : List Nat) : Option Int :=
  match t with
  | [] => some 0
  | c :: r =>
    if c == 101 || c == 69 then
      let sr : Bool × List Nat :=
        if r.head? = some 45 then (true, r.tail)
        else if r.head? = some 43 then (false, r.tail)
        else (false, r)
      let ep := spanDigits sr.2
      if ep.1.isEmpty then none
      else if !ep.2.isEmpty then none
      else some (if sr.1 then -((valOf ep.1 : Nat) : Int) else ((valOf ep.1 : Nat) : Int))
    else none

/-- digits of the integer and fraction parts and the written exponent ↦ `(sig, exp)` with the trailing zeros
    of `sig` stripped (`(0, 0)` for zero) -/
def mkDec (ip fp : List Nat) (e : Int) : Nat × Int :=
  let all := ip ++ fp
  let st := stripTrailingZeros all
  if valOf st = 0 then (0, 0)
  else (valOf st, e - (fp.length : Int) + ((all.length - st.length : Nat) : Int))

/-- A JSON number `-? (0 | [1-9][0-9]*) (. [0-9]+)? ([eE] [+-]? [0-9]+)?` read exactly:
    `some (neg, sig, exp)` with value `(-1)^neg · sig · 10^exp`, `sig` without trailing zeros;
    `none` if the text is not a JSON number. -/
def parseDecText (t : List Nat) : Option (Bool × Nat × Int) :=
  let st : Bool × List Nat := if t.head? = some 45 then (true, t.tail) else (false, t)
  let ip := spanDigits st.2
  if ip.1.isEmpty then none
  else if decide (1 < ip.1.length) && ip.1.head? == some 0 then none
  else
    match parseFrac ip.2 with
    | none => none
    | some (fp, r) =>
      match parseExp r with
      | none => none
      | some e => some (st.1, mkDec ip.1 fp e)

/-- numeric normal form of `sig·10^exp`: trailing zeros of `sig` moved into the exponent (fuel `sig` is
    always enough); `(0,0)` for zero -/
def stripZ : Nat → Nat → Int → Nat × Int
  | 0, m, e => (m, e)
  | f + 1, m, e => if m % 10 = 0 then stripZ f (m / 10) (e + 1) else (m, e)

def normalize (sig : Nat) (exp : Int) : Nat × Int := if sig = 0 then (0, 0) else stripZ sig sig exp

/-- the text contains a fraction or an exponent (so a JSON reader takes it as a double) -/
def hasFracOrExp (t : List Nat) : Bool := t.contains 46 || t.contains 101 || t.contains 69

/-! ## reference rendering -/

/-- mantissa of the scientific notation: `d` or `d.ddd` -/
def mant (D : List Nat) : List Nat :=
  match D with
  | [] => []
  | d :: rest => d :: (if rest.isEmpty then [] else 46 :: rest)

/-- Reference rendering of the non-zero magnitude `m·10^e` (`m` without trailing zeros, `D` its digits,
    `sci` the exponent in scientific notation):
    * `sci < -6` or `sci > 20`: `d[.ddd]e±X`,
    * otherwise positional notation, always with a fraction: `ddd000.0`, `0.000ddd`, `dd.ddd`. -/
def refBody (m : Nat) (e : Int) : List Nat :=
  let D := decimal m
  let point : Int := (D.length : Int) + e
  let sci := point - 1
  if sci < -6 ∨ sci > 20 then
    mant D ++ [101, if sci < 0 then 45 else 43] ++ decimal sci.natAbs
  else if 0 ≤ e then D ++ List.replicate e.toNat 48 ++ [46, 48]
  else if point ≤ 0 then [48, 46] ++ List.replicate (-point).toNat 48 ++ D
  else D.take point.toNat ++ 46 :: D.drop point.toNat

def refText (neg : Bool) (m : Nat) (e : Int) : List Nat := (if neg then [45] else []) ++ refBody m e

/-! ## decomposition of a bit pattern -/

/-- `(c, q)` of the magnitude of a finite non-zero double given by its bit pattern -/
def cqOfBits (bits : Nat) : Nat × Int :=
  let rsig : Nat := bits % 2 ^ 52
  let rexp : Nat := bits / 2 ^ 52 % 2 ^ 11
  if rexp = 0 then (rsig, -1074) else (rsig + 2 ^ 52, (rexp : Int) - 1075)

end Sonic.Spec.Shortest
