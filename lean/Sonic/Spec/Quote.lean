/-!
# Spec: JSON string quoting of an arbitrary byte string (RFC 8259, section 7)

Written from the RFC / the property text, independently of the implementation's lookup tables.
Bytes are natural numbers (`< 256` in every use); a string is a `List Nat`.

RFC 8259: "All Unicode characters may be placed within the quotation marks, except for the characters
that MUST be escaped: quotation mark, reverse solidus, and the control characters (U+0000 through
U+001F)."  The two-character escapes `\b \t \n \f \r` are used for 0x08, 0x09, 0x0A, 0x0C, 0x0D; every
other control byte is spelled `\u00XX` with lowercase hexadecimal digits.  Every other byte (including
0x2F `/`, 0x7F and all bytes ≥ 0x80) is emitted verbatim.
-/
namespace Sonic.Spec

/-- ASCII code of the lowercase hexadecimal digit `d` (`d < 16`) -/
def hexLower (d : Nat) : Nat := if d < 10 then 48 + d else 87 + d

/-- the JSON spelling of one byte inside a string literal -/
def escapeByte (b : Nat) : List Nat :=
  if b = 0x22 then [0x5C, 0x22]            -- `\"`
  else if b = 0x5C then [0x5C, 0x5C]       -- `\\`
  else if b = 0x08 then [0x5C, 0x62]       -- `\b`
  else if b = 0x09 then [0x5C, 0x74]       -- `\t`
  else if b = 0x0A then [0x5C, 0x6E]       -- `\n`
  else if b = 0x0C then [0x5C, 0x66]       -- `\f`
  else if b = 0x0D then [0x5C, 0x72]       -- `\r`
  else if b < 0x20 then [0x5C, 0x75, 0x30, 0x30, hexLower (b / 16), hexLower (b % 16)]  -- `\u00XX`
  else [b]

/-- `"` ++ escaped bytes ++ `"` -/
def quote (s : List Nat) : List Nat := 34 :: s.flatMap escapeByte ++ [34]

end Sonic.Spec
