import Sonic.Spec.JsonTypes

/-!
# Spec: the "simple model" of the DOM mutation API (property C12)

A document is a `JVal`; an array is a `List JVal`, an object a `List (key × JVal)` (duplicates allowed, order kept).
Every API call of `/verif/protocol/dom.md` is a pure function on that value, applied at a *positional* path.
Nothing of the implementation is visible here: no capacity, no lookup map, no string ownership
(`memberReserve`, `reserve`, `createMap`, `destroyMap` are the identity).  A `JVal.num (.real bits)` may be
non-finite in this file (`SetDouble` of an arbitrary bit pattern).

* `RemoveMember` overwrites the FIRST member whose key matches with the LAST member, which is dropped.
* lookups return the FIRST match in stored order.
* `step` is the whole command interpreter on four documents; `none` = the precondition of dom.md fails (`bad-op`).
  The JSON reader / printer used by `dom-parse` / `dom-dump` are parameters (`Env`).
-/
namespace Sonic.Spec.Containers
open Sonic.Spec

abbrev Key := List Nat

/-- positional path step: `/i<n>` = array element n, `/m<n>` = VALUE of the n-th member -/
inductive Step where
  | idx (n : Nat)
  | mem (n : Nat)
  deriving Repr, DecidableEq, Inhabited

abbrev Path := List Step

/-- JSON-pointer step given to `AtPointer`: a string or an `int` (may be negative) -/
inductive PStep where
  | key (k : Key)
  | num (n : Int)
  deriving Repr, DecidableEq, Inhabited

/-- value literals of dom.md -/
inductive Val where
  | null
  | bool (b : Bool)
  | uint (n : Nat)      -- SetUint64
  | int (i : Int)       -- SetInt64: negative → sint, non-negative → uint
  | real (bits : Nat)   -- SetDouble of that bit pattern (may be non-finite)
  | str (s : List Nat)  -- string copied with the document's allocator
  | cstr (s : List Nat) -- constant string (not copied)
  | arr
  | obj
  deriving Repr, DecidableEq, Inhabited

def Val.toJVal : Val → JVal
  | .null => .null
  | .bool b => .bool b
  | .uint n => .num (.uint n)
  | .int i => if i < 0 then .num (.sint i) else .num (.uint i.toNat)
  | .real b => .num (.real b)
  | .str s => .str s
  | .cstr s => .str s
  | .arr => .arr []
  | .obj => .obj []

inductive AllocKind where
  | pool | simple | track
  deriving Repr, DecidableEq, Inhabited

/-- the JSON reader (`none` = parse error) and the serialiser plugged in by the integrator:
    `dump v cap0 nreuse` = the whole `err=… dump=… size=… cap=…` text of `dom-dump` / `dom-dumpwb` -/
structure Env where
  parse : List Nat → Option JVal
  dump : JVal → Nat → Nat → String

/-! ## positional paths -/

def child : JVal → Step → Option JVal
  | .arr xs, .idx n => xs[n]?
  | .obj kvs, .mem n => (kvs[n]?).map (·.2)
  | _, _ => none

def setChild : JVal → Step → JVal → Option JVal
  | .arr xs, .idx n, c => if n < xs.length then some (.arr (xs.set n c)) else none
  | .obj kvs, .mem n, c => (kvs[n]?).map fun kv => .obj (kvs.set n (kv.1, c))
  | _, _, _ => none

def get : JVal → Path → Option JVal
  | v, [] => some v
  | v, s :: p => (child v s).bind fun c => get c p

/-- replace the node at `p` (which must resolve) by `x` -/
def set : JVal → Path → JVal → Option JVal
  | _, [], x => some x
  | v, s :: p, x => (child v s).bind fun c => (set c p x).bind fun c' => setChild v s c'

/-- apply the node operation `f` at `p`; `none` if the path does not resolve or `f` rejects -/
def modifyAt {ρ : Type} (f : JVal → Option (JVal × ρ)) : JVal → Path → Option (JVal × ρ)
  | v, [] => f v
  | v, s :: p => (child v s).bind fun c => (modifyAt f c p).bind fun cr =>
      (setChild v s cr.1).map fun v' => (v', cr.2)

/-! ## node operations -/

/-- position of the first member whose key is `k` -/
def findPos (k : Key) (kvs : List (Key × JVal)) : Option Nat := kvs.findIdx? (fun kv => kv.1 == k)

def setAt (x : JVal) : JVal → Option JVal := fun _ => some x

/-- `AddMember`: append; returns the position of the new member -/
def addMember (k : Key) (x : JVal) : JVal → Option (JVal × Nat)
  | .obj kvs => some (.obj (kvs ++ [(k, x)]), kvs.length)
  | _ => none

/-- `RemoveMember`: the first member whose key matches is overwritten by the last member, which is dropped -/
def removeMember (k : Key) : JVal → Option (JVal × Bool)
  | .obj kvs =>
    match findPos k kvs, kvs.getLast? with
    | some pos, some l => some (.obj ((kvs.set pos l).dropLast), true)
    | _, _ => some (.obj kvs, false)
  | _ => none

/-- `EraseMember(begin+first, begin+last)`; returns `first` -/
def eraseMembers (first last : Nat) : JVal → Option (JVal × Nat)
  | .obj kvs => if first ≤ last ∧ last ≤ kvs.length then some (.obj (kvs.take first ++ kvs.drop last), first) else none
  | _ => none

def memberReserve (_n : Nat) : JVal → Option JVal
  | .obj kvs => some (.obj kvs)
  | _ => none

def createMap : JVal → Option JVal
  | .obj kvs => some (.obj kvs)
  | _ => none

def destroyMap : JVal → Option JVal
  | .obj kvs => some (.obj kvs)
  | _ => none

def pushBack (x : JVal) : JVal → Option JVal
  | .arr xs => some (.arr (xs ++ [x]))
  | _ => none

def popBack : JVal → Option JVal
  | .arr xs => if xs.isEmpty then none else some (.arr xs.dropLast)
  | _ => none

/-- `Erase(first, last)`; returns `first` -/
def eraseElems (first last : Nat) : JVal → Option (JVal × Nat)
  | .arr xs => if first ≤ last ∧ last ≤ xs.length then some (.arr (xs.take first ++ xs.drop last), first) else none
  | _ => none

def reserve (_n : Nat) : JVal → Option JVal
  | .arr xs => some (.arr xs)
  | _ => none

def clear : JVal → Option JVal
  | .arr _ => some (.arr [])
  | .obj _ => some (.obj [])
  | _ => none

/-! ## lookups -/

/-- `FindMember`: outer `none` = not an object; inner = first match position -/
def findMember (k : Key) : JVal → Option (Option Nat)
  | .obj kvs => some (findPos k kvs)
  | _ => none

def hasMember (k : Key) : JVal → Option Bool
  | .obj kvs => some (findPos k kvs).isSome
  | _ => none

/-- `operator[](key)`: the first matching member's value, a null node if there is none -/
def index (k : Key) : JVal → Option JVal
  | .obj kvs =>
    match findPos k kvs with
    | some i => (kvs[i]?).map (·.2)
    | none => some .null
  | _ => none

/-- one JSON-pointer step: first-match member / in-range non-negative index; anything else fails -/
def atStep : JVal → PStep → Option JVal
  | .obj kvs, .key k =>
    match findPos k kvs with
    | some i => (kvs[i]?).map (·.2)
    | none => none
  | .arr xs, .num n => if 0 ≤ n ∧ n < xs.length then xs[n.toNat]? else none
  | _, _ => none

def atPointer (v : JVal) : List PStep → Option JVal
  | [] => some v
  | s :: ps => (atStep v s).bind fun c => atPointer c ps

def size : JVal → Option Nat
  | .arr xs => some xs.length
  | .obj kvs => some kvs.length
  | .str s => some s.length
  | _ => none

def empty (v : JVal) : Option Bool := (size v).map (· == 0)

def back : JVal → Option JVal
  | .arr xs => xs.getLast?
  | _ => none

/-! ## commands -/

/-- commands addressing one node -/
inductive NodeOp where
  | set (v : Val)
  | add (key : Key) (v : Val) (copyKey : Bool)
  | remove (key : Key)
  | eraseMem (first last : Nat)
  | mreserve (n : Nat)
  | createMap
  | destroyMap
  | push (v : Val)
  | pop
  | erase (first last : Nat)
  | reserve (n : Nat)
  | clear
  | find (key : Key)
  | atPtr (steps : List PStep)
  | info
  | dump (cap0 nreuse : Nat)
  deriving Repr, Inhabited

/-- result of a one-node command (besides the new document) -/
inductive Res where
  | unit
  | idx (i : Nat)
  | removed (r : Bool)
  | ret (i : Nat)
  | found (sv pl : Option Nat) (has : Bool) (atv : JVal)
  | atPtr (r : Option JVal)
  | infoC (size : Nat) (empty : Bool) (cap : Nat) (map : Bool) (back : Option JVal)
  | infoS (size : Nat) (empty : Bool)
  | scalar
  | dump (text : String)
  deriving Repr, Inhabited

/-- forget the L2 observables (`cap=`, `map=`): the property does not constrain them -/
def Res.eraseL2 : Res → Res
  | .infoC s e _ _ b => .infoC s e 0 false b
  | r => r

def info : JVal → Res
  | .arr xs => .infoC xs.length xs.isEmpty 0 false xs.getLast?
  | .obj kvs => .infoC kvs.length kvs.isEmpty 0 false none
  | .str s => .infoS s.length s.isEmpty
  | _ => .scalar

def withUnit (r : Option JVal) : Option (JVal × Res) := r.map fun v => (v, .unit)

/-- a one-node command on the node itself -/
def applyNode (env : Env) : NodeOp → JVal → Option (JVal × Res)
  | .set v, x => withUnit (setAt v.toJVal x)
  | .add k v _, x => (addMember k v.toJVal x).map fun r => (r.1, .idx r.2)
  | .remove k, x => (removeMember k x).map fun r => (r.1, .removed r.2)
  | .eraseMem f l, x => (eraseMembers f l x).map fun r => (r.1, .ret r.2)
  | .mreserve n, x => withUnit (memberReserve n x)
  | .createMap, x => withUnit (createMap x)
  | .destroyMap, x => withUnit (destroyMap x)
  | .push v, x => withUnit (pushBack v.toJVal x)
  | .pop, x => withUnit (popBack x)
  | .erase f l, x => (eraseElems f l x).map fun r => (r.1, .ret r.2)
  | .reserve n, x => withUnit (reserve n x)
  | .clear, x => withUnit (clear x)
  | .find k, x =>
    match findMember k x, hasMember k x, index k x with
    | some p, some h, some a => some (x, .found p p h a)
    | _, _, _ => none
  | .atPtr ps, x => some (x, .atPtr (atPointer x ps))
  | .info, x => some (x, info x)
  | .dump c r, x => some (x, .dump (env.dump x c r))

inductive Op where
  | reset (a : AllocKind)
  | fin
  | parse (d : Nat) (text : List Nat)
  | node (d : Nat) (p : Path) (op : NodeOp)
  | move (d : Nat) (p : Path) (d2 : Nat) (p2 : Path)
  | copy (d : Nat) (p : Path) (d2 : Nat) (p2 : Path) (copyString : Bool)
  | swap (d : Nat) (p : Path) (d2 : Nat) (p2 : Path)
  | docMove (d d2 : Nat)
  | docSwap (d d2 : Nat)
  deriving Repr, Inhabited

/-- what a command prints (trees as values; `render` in the model file turns it into the protocol line) -/
inductive Out where
  | reset
  | fin (track : Bool)
  | parse (ok : Bool) (doc : JVal)
  | node (r : Res) (doc : JVal)
  | two (doc doc2 : JVal)
  deriving Repr, Inhabited

def Out.eraseL2 : Out → Out
  | .node r d => .node r.eraseL2 d
  | o => o

/-- four documents and the allocator kind (which only matters for the cross-document preconditions) -/
structure State where
  /-- a case is open (between `dom-reset` and `dom-end`) -/
  live : Bool
  alloc : AllocKind
  docs : List JVal
  deriving Repr

/-- before the first `dom-reset` -/
def State.init : State := ⟨false, .pool, [.null, .null, .null, .null]⟩

/-- after `dom-reset a` -/
def State.fresh (a : AllocKind) : State := ⟨true, a, [.null, .null, .null, .null]⟩

/-- `dst = std::move(src)` inside one document: `src` must not be a proper ancestor of `dst`;
    `src == dst` is a no-op; `dst` may be an ancestor of `src`.  The source is detached (nulled) first. -/
def moveNode (doc : JVal) (dst src : Path) : Option JVal :=
  if dst = src then (get doc dst).map fun _ => doc
  else if src.isPrefixOf dst then none
  else (get doc src).bind fun v => (set doc src .null).bind fun d1 => set d1 dst v

/-- move across two documents -/
def moveNode2 (D : JVal) (dst : Path) (S : JVal) (src : Path) : Option (JVal × JVal) :=
  (get S src).bind fun v => (set S src .null).bind fun S' => (set D dst v).map fun D' => (D', S')

/-- `dst.CopyFrom(src)` inside one document: neither node may be an ancestor-or-self of the other
    (aliasing precondition of the copy constructor) -/
def copyNode (doc : JVal) (dst src : Path) : Option JVal :=
  if dst.isPrefixOf src || src.isPrefixOf dst then none
  else (get doc src).bind fun v => set doc dst v

def copyNode2 (D : JVal) (dst : Path) (S : JVal) (src : Path) : Option JVal :=
  (get S src).bind fun v => set D dst v

/-- `a.Swap(b)` inside one document: neither an ancestor of the other; equal nodes allowed (no-op) -/
def swapNodes (doc : JVal) (a b : Path) : Option JVal :=
  if a = b then (get doc a).map fun _ => doc
  else if a.isPrefixOf b || b.isPrefixOf a then none
  else (get doc a).bind fun x => (get doc b).bind fun y => (set doc a y).bind fun d1 => set d1 b x

def swapNodes2 (D : JVal) (a : Path) (S : JVal) (b : Path) : Option (JVal × JVal) :=
  (get D a).bind fun x => (get S b).bind fun y => (set D a y).bind fun D' => (set S b x).map fun S' => (D', S')

/-- commands inside an open case -/
def stepLive (env : Env) (s : State) : Op → Option (State × Out)
  | .reset a => some (State.fresh a, .reset)
  | .fin => some ({ State.fresh s.alloc with live := false }, .fin (s.alloc == .track))
  | .parse d text =>
    if d < s.docs.length then
      match env.parse text with
      | some v => some ({ s with docs := s.docs.set d v }, .parse true v)
      | none => some ({ s with docs := s.docs.set d .null }, .parse false .null)
    else none
  | .node d p op =>
    (s.docs[d]?).bind fun doc => (modifyAt (applyNode env op) doc p).map fun r =>
      ({ s with docs := s.docs.set d r.1 }, .node r.2 r.1)
  | .move d p d2 p2 =>
    if d = d2 then
      (s.docs[d]?).bind fun doc => (moveNode doc p p2).map fun doc' =>
        ({ s with docs := s.docs.set d doc' }, .two doc' doc')
    else if s.alloc = .pool then none
    else (s.docs[d]?).bind fun D => (s.docs[d2]?).bind fun S => (moveNode2 D p S p2).map fun r =>
      ({ s with docs := (s.docs.set d r.1).set d2 r.2 }, .two r.1 r.2)
  | .copy d p d2 p2 _ =>
    if d = d2 then
      (s.docs[d]?).bind fun doc => (copyNode doc p p2).map fun doc' =>
        ({ s with docs := s.docs.set d doc' }, .two doc' doc')
    else (s.docs[d]?).bind fun D => (s.docs[d2]?).bind fun S => (copyNode2 D p S p2).map fun D' =>
      ({ s with docs := s.docs.set d D' }, .two D' S)
  | .swap d p d2 p2 =>
    if d = d2 then
      (s.docs[d]?).bind fun doc => (swapNodes doc p p2).map fun doc' =>
        ({ s with docs := s.docs.set d doc' }, .two doc' doc')
    else if s.alloc = .pool then none
    else (s.docs[d]?).bind fun D => (s.docs[d2]?).bind fun S => (swapNodes2 D p S p2).map fun r =>
      ({ s with docs := (s.docs.set d r.1).set d2 r.2 }, .two r.1 r.2)
  | .docMove d d2 =>
    if d = d2 then none
    else (s.docs[d]?).bind fun _ => (s.docs[d2]?).map fun S =>
      ({ s with docs := (s.docs.set d S).set d2 .null }, .two S .null)
  | .docSwap d d2 =>
    (s.docs[d]?).bind fun D => (s.docs[d2]?).map fun S =>
      ({ s with docs := (s.docs.set d S).set d2 D }, .two S D)

/-- the command interpreter; `none` = `bad-op` (a precondition of dom.md fails; the state is then unchanged).
    Outside a case (before the first `dom-reset`, after `dom-end`) only `dom-reset` is accepted. -/
def step (env : Env) (s : State) (op : Op) : Option (State × Out) :=
  match op with
  | .reset a => some (State.fresh a, .reset)
  | op => if s.live then stepLive env s op else none

/-- run a list of commands; a rejected command leaves the state unchanged and yields `none` (`bad-op`) -/
def run (env : Env) : State → List Op → State × List (Option Out)
  | s, [] => (s, [])
  | s, op :: ops =>
    match step env s op with
    | some (s', o) => let r := run env s' ops; (r.1, some o :: r.2)
    | none => let r := run env s ops; (r.1, none :: r.2)

end Sonic.Spec.Containers
