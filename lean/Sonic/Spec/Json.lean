import Sonic.Spec.JsonTypes
import Sonic.Spec.StringLit
import Sonic.Spec.Number

/-!
# Spec: RFC 8259 recogniser / evaluator over bytes

A recursive-descent reader written from RFC 8259 §2–§7 with the amendments the property statements make:
no UTF-8 validation of string contents; raw bytes below 0x20 in strings rejected; escapes strict (including
surrogate pairing, `Spec.decodeLit`); numbers evaluated by `Spec.Number.scanNumber` (integer kinds, exact
round-to-nearest-even, a number that rounds to ±∞ is rejected).  Whitespace = space, tab, LF, CR.
No nesting limit.  Duplicate member names are kept, in textual order.
-/
namespace Sonic.Spec.Json
open Sonic.Spec

inductive Reject where
  | malformed
  | infinity
  deriving Repr, DecidableEq, Inhabited

def isWs (c : Nat) : Bool := c == 0x20 || c == 0x09 || c == 0x0A || c == 0x0D

/-- index of the first non-whitespace byte at or after `p` (or `buf.length`) -/
def skipWs (buf : List Nat) : Nat → Nat → Nat
  | 0, p => p
  | fuel + 1, p =>
    match buf[p]? with
    | some c => if isWs c then skipWs buf fuel (p + 1) else p
    | none => p

def matchLit (buf : List Nat) (p : Nat) (lit : List Nat) : Bool :=
  (List.range lit.length).all fun i => buf[p + i]? == lit[i]?

mutual
/-- value starting exactly at `p` (no leading whitespace): `(value, index just after it)` -/
def parseValue (buf : List Nat) : Nat → Nat → Except Reject (JVal × Nat)
  | 0, _ => .error .malformed
  | fuel + 1, p =>
    match buf[p]? with
    | none => .error .malformed
    | some c =>
      if c == 0x22 then
        match decodeLit buf (p + 1) with
        | some (s, next) => .ok (.str s, next)
        | none => .error .malformed
      else if c == 0x5B then      -- [
        let q := skipWs buf buf.length (p + 1)
        if buf[q]? == some 0x5D then .ok (.arr [], q + 1)
        else
          match parseElems buf fuel q with
          | .ok (xs, next) => .ok (.arr xs, next)
          | .error e => .error e
      else if c == 0x7B then      -- {
        let q := skipWs buf buf.length (p + 1)
        if buf[q]? == some 0x7D then .ok (.obj [], q + 1)
        else
          match parseMembers buf fuel q with
          | .ok (kvs, next) => .ok (.obj kvs, next)
          | .error e => .error e
      else if c == 0x74 then      -- true
        if matchLit buf p [0x74, 0x72, 0x75, 0x65] then .ok (.bool true, p + 4) else .error .malformed
      else if c == 0x66 then      -- false
        if matchLit buf p [0x66, 0x61, 0x6C, 0x73, 0x65] then .ok (.bool false, p + 5) else .error .malformed
      else if c == 0x6E then      -- null
        if matchLit buf p [0x6E, 0x75, 0x6C, 0x6C] then .ok (.null, p + 4) else .error .malformed
      else if c == 0x2D || (0x30 ≤ c && c ≤ 0x39) then
        match Number.scanNumber buf p with
        | .ok v next => .ok (.num v, next)
        | .infinity _ => .error .infinity
        | .malformed => .error .malformed
      else .error .malformed

/-- `value (ws , ws value)* ws ]` with `p` at the first value -/
def parseElems (buf : List Nat) : Nat → Nat → Except Reject (List JVal × Nat)
  | 0, _ => .error .malformed
  | fuel + 1, p =>
    match parseValue buf fuel p with
    | .error e => .error e
    | .ok (v, next) =>
      let q := skipWs buf buf.length next
      if buf[q]? == some 0x5D then .ok ([v], q + 1)
      else if buf[q]? == some 0x2C then
        match parseElems buf fuel (skipWs buf buf.length (q + 1)) with
        | .ok (vs, e) => .ok (v :: vs, e)
        | .error e => .error e
      else .error .malformed

/-- `string ws : ws value (ws , ws member)* ws }` with `p` at the first key's opening quote -/
def parseMembers (buf : List Nat) : Nat → Nat → Except Reject (List (List Nat × JVal) × Nat)
  | 0, _ => .error .malformed
  | fuel + 1, p =>
    if buf[p]? != some 0x22 then .error .malformed
    else
      match decodeLit buf (p + 1) with
      | none => .error .malformed
      | some (k, afterKey) =>
        let q := skipWs buf buf.length afterKey
        if buf[q]? != some 0x3A then .error .malformed
        else
          match parseValue buf fuel (skipWs buf buf.length (q + 1)) with
          | .error e => .error e
          | .ok (v, next) =>
            let r := skipWs buf buf.length next
            if buf[r]? == some 0x7D then .ok ([(k, v)], r + 1)
            else if buf[r]? == some 0x2C then
              match parseMembers buf fuel (skipWs buf buf.length (r + 1)) with
              | .ok (kvs, e) => .ok ((k, v) :: kvs, e)
              | .error e => .error e
            else .error .malformed
end

/-- one JSON text: `ws value ws` and nothing else.  Fuel `2·len + 2` is never exhausted (each recursive call
    consumes at least one byte). -/
def parse (bs : List Nat) : Except Reject JVal :=
  let p := skipWs bs bs.length 0
  match parseValue bs (2 * bs.length + 2) p with
  | .error e => .error e
  | .ok (v, next) =>
    if skipWs bs bs.length next == bs.length then .ok v else .error .malformed

def accepts (bs : List Nat) : Bool := match parse bs with | .ok _ => true | .error _ => false

/-- value at `p` and its end (used by the on-demand specs): no surrounding whitespace handling -/
def parseAt (bs : List Nat) (p : Nat) : Except Reject (JVal × Nat) := parseValue bs (2 * bs.length + 2) p

end Sonic.Spec.Json

namespace Sonic.Spec

def hexDigitChar (n : Nat) : Char := if n < 10 then Char.ofNat (48 + n) else Char.ofNat (87 + n)

def hexStr (bs : List Nat) : String :=
  if bs.isEmpty then "-" else
  String.ofList (bs.foldr (fun b acc => hexDigitChar (b / 16 % 16) :: hexDigitChar (b % 16) :: acc) [])

def JNum.show : JNum → String
  | .uint n => s!"u{n}"
  | .sint n => s!"i{n}"
  | .real b => s!"d{b}"

mutual
/-- canonical rendering used by the line protocol (see /verif/protocol/parse.md) -/
def JVal.show : JVal → String
  | .null => "n"
  | .bool true => "t"
  | .bool false => "f"
  | .num n => n.show
  | .str s => "s" ++ hexStr s
  | .arr xs => "[" ++ showList xs ++ "]"
  | .obj kvs => "{" ++ showMembers kvs ++ "}"
def showList : List JVal → String
  | [] => ""
  | [x] => x.show
  | x :: xs => x.show ++ "," ++ showList xs
def showMembers : List (List Nat × JVal) → String
  | [] => ""
  | [(k, v)] => "k" ++ hexStr k ++ ":" ++ v.show
  | (k, v) :: kvs => "k" ++ hexStr k ++ ":" ++ v.show ++ "," ++ showMembers kvs
end

end Sonic.Spec
