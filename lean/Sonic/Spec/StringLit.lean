/-!
# Reference semantics of a JSON string literal (RFC 8259 §7)

Written from the RFC / the property text, independently of the implementation: a byte-at-a-time decoder with
no notion of vector blocks.  Bytes are `Nat`s; a buffer is a `List Nat`.

* `utf8 cp` — the UTF-8 encoding of a code point `cp ≤ 0x10FFFF` (RFC 3629 §3).
* `hexVal` — the value of an ASCII hex digit (both cases).
* `decodeLit buf start` — `start` is the index just after the opening quote.  Result
  `some (decoded bytes, index just after the closing quote)`, `none` = the literal is rejected:
  raw byte `< 0x20`, unknown escape, `\u` not followed by four hex digits, a lone low surrogate, a high surrogate
  not followed by `\u` + low surrogate, or no closing quote before the end of `buf`.
-/

namespace Sonic.Spec

/-- UTF-8 encoding (RFC 3629): 1 to 4 bytes; `[]` for values that are not code points (`> 0x10FFFF`) -/
def utf8 (cp : Nat) : List Nat :=
  if cp < 0x80 then [cp]
  else if cp < 0x800 then [0xC0 + cp / 64, 0x80 + cp % 64]
  else if cp < 0x10000 then [0xE0 + cp / 4096, 0x80 + cp / 64 % 64, 0x80 + cp % 64]
  else if cp < 0x110000 then [0xF0 + cp / 262144, 0x80 + cp / 4096 % 64, 0x80 + cp / 64 % 64, 0x80 + cp % 64]
  else []

/-- value of an ASCII hex digit: `0-9`, `A-F`, `a-f` -/
def hexVal (c : Nat) : Option Nat :=
  if 0x30 ≤ c ∧ c ≤ 0x39 then some (c - 0x30)
  else if 0x41 ≤ c ∧ c ≤ 0x46 then some (c - 0x41 + 10)
  else if 0x61 ≤ c ∧ c ≤ 0x66 then some (c - 0x61 + 10)
  else none

/-- the eight two-character escapes of RFC 8259 §7: the byte after the backslash ↦ the byte it denotes -/
def simpleEscape (c : Nat) : Option Nat :=
  if c = 0x22 then some 0x22        -- \"  quotation mark
  else if c = 0x5C then some 0x5C   -- \\  reverse solidus
  else if c = 0x2F then some 0x2F   -- \/  solidus
  else if c = 0x62 then some 0x08   -- \b  backspace
  else if c = 0x66 then some 0x0C   -- \f  form feed
  else if c = 0x6E then some 0x0A   -- \n  line feed
  else if c = 0x72 then some 0x0D   -- \r  carriage return
  else if c = 0x74 then some 0x09   -- \t  tab
  else none

/-- the 16-bit value of the four hex digits `buf[p .. p+4)`; `none` if one is missing or not a hex digit -/
def hex4 (buf : List Nat) (p : Nat) : Option Nat :=
  match buf[p]?, buf[p + 1]?, buf[p + 2]?, buf[p + 3]? with
  | some a, some b, some c, some d =>
    match hexVal a, hexVal b, hexVal c, hexVal d with
    | some h0, some h1, some h2, some h3 => some (4096 * h0 + 256 * h1 + 16 * h2 + h3)
    | _, _, _, _ => none
  | _, _, _, _ => none

def isHighSurrogate (u : Nat) : Bool := 0xD800 ≤ u && u ≤ 0xDBFF
def isLowSurrogate (u : Nat) : Bool := 0xDC00 ≤ u && u ≤ 0xDFFF

/-- the supplementary code point denoted by a surrogate pair (RFC 8259 §7 / UTF-16) -/
def pairCodePoint (hi lo : Nat) : Nat := 0x10000 + ((hi - 0xD800) <<< 10) + (lo - 0xDC00)

/-- the escape whose backslash is at `p - 1`, i.e. `p` is the index just after the backslash:
    `some (bytes it denotes, index just after the escape)` or `none` (rejected) -/
def escapeAt (buf : List Nat) (p : Nat) : Option (List Nat × Nat) :=
  match buf[p]? with
  | none => none
  | some c =>
    if c = 0x75 then                                     -- \uXXXX
      match hex4 buf (p + 1) with
      | none => none
      | some hi =>
        if isHighSurrogate hi then
          if buf[p + 5]? = some 0x5C ∧ buf[p + 6]? = some 0x75 then
            match hex4 buf (p + 7) with
            | none => none
            | some lo => if isLowSurrogate lo then some (utf8 (pairCodePoint hi lo), p + 11) else none
          else none
        else if isLowSurrogate hi then none
        else some (utf8 hi, p + 5)
    else
      match simpleEscape c with
      | none => none
      | some v => some ([v], p + 1)

/-- decode from index `p` (inside the literal) with `fuel` steps; every step consumes at least one byte -/
def decodeFrom (buf : List Nat) : Nat → Nat → Option (List Nat × Nat)
  | 0, _ => none
  | fuel + 1, p =>
    match buf[p]? with
    | none => none                                        -- ran off the end: no closing quote
    | some c =>
      if c = 0x22 then some ([], p + 1)                   -- closing quote
      else if c = 0x5C then
        match escapeAt buf (p + 1) with
        | none => none
        | some (out, p') =>
          match decodeFrom buf fuel p' with
          | none => none
          | some (rest, next) => some (out ++ rest, next)
      else if c < 0x20 then none                          -- raw control byte
      else
        match decodeFrom buf fuel (p + 1) with
        | none => none
        | some (rest, next) => some (c :: rest, next)

/-- `start` = index just after the opening quote.  `buf.length` steps always suffice (each step consumes a byte). -/
def decodeLit (buf : List Nat) (start : Nat) : Option (List Nat × Nat) :=
  decodeFrom buf buf.length start

end Sonic.Spec
