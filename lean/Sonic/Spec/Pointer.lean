import Sonic.Spec.JsonTypes

/-!
# Spec: resolving a pointer path in a parsed document (C10)

Written from the property text: a path is a list of steps, each either an object key (decoded bytes) or an array
index.  A key step selects the *first* member with that key (duplicates are kept by `Spec.Json.parse` in
textual order); an index step selects the `i`-th element.  A negative index, an index at or beyond the array
size, a key step into a value that is not an object, an index step into a value that is not an array, and a
missing key do not resolve (`none`).
-/
namespace Sonic.Spec.Pointer
open Sonic.Spec

inductive Step where
  | key (k : List Nat)
  | idx (i : Int)
  deriving Repr, DecidableEq, Inhabited

/-- first member whose key is `k` -/
def lookupKey (k : List Nat) : List (List Nat × JVal) → Option JVal
  | [] => none
  | (k', v) :: rest => if k' = k then some v else lookupKey k rest

/-- one step -/
def stepInto : JVal → Step → Option JVal
  | .obj kvs, .key k => lookupKey k kvs
  | .arr xs, .idx i => if i < 0 then none else xs[i.toNat]?
  | _, _ => none

/-- the value the path resolves to (zero steps = the root) -/
def «at» : JVal → List Step → Option JVal
  | v, [] => some v
  | v, s :: rest =>
    match stepInto v s with
    | some u => «at» u rest
    | none => none

end Sonic.Spec.Pointer
