-- Root of the `Sonic` library: generated tables, specs, models, proofs, property theorems.
import Sonic.Gen.Tables
import Sonic.Driver
import Sonic.Props.C01
import Sonic.Props.C02
import Sonic.Props.C03
import Sonic.Props.C05
import Sonic.Props.C06
import Sonic.Props.C07
import Sonic.Props.C08
import Sonic.Props.C09
import Sonic.Props.C10
import Sonic.Props.C11
import Sonic.Props.C12
import Sonic.Props.C14
import Sonic.Props.C15
import Sonic.Props.C18
