import Sonic.Driver

def main (args : List String) : IO Unit := Sonic.Driver.main args
