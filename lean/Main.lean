import Sonic.Driver

def main : IO Unit := Sonic.Driver.main
