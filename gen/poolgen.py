"""Op-sequence generator for the pool protocol (protocol/pool.md) with a Python mirror of MemoryPoolAllocator
(written from allocator.h, independently of the Lean model): predicts every pointer (chunk serial + offset), Size(),
Capacity(), the number of base frees, and tracks which blocks are live - so the generator only emits valid operations
and the judge has an independent expectation."""
MAXCAP = 65536
SHARED, HDR = 32, 24


def align(n):
    return (n + 7) & ~7


class Pool:
    def __init__(self):
        self.chunks = []      # head first: [serial, cap, size]
        self.refcount = 1
        self.own = True
        self.shared_serial = None


class Mirror:
    def __init__(self):
        self.serial = 0
        self.slots = {}       # slot -> dict(pool=Pool|None, min=int, adaptive=bool)
        self.blocks = []      # dict(n, ptr=(serial,off), req, pool)
        self.nblk = 0

    def fresh(self):
        s = self.serial
        self.serial += 1
        return s

    def chunk_size(self, h, need):
        if h["adaptive"]:
            if h["min"] < need and h["min"] < MAXCAP:
                p = 1 << need.bit_length()
                h["min"] = p if p < MAXCAP else MAXCAP
        return h["min"] if h["min"] > need else need

    def new(self, slot, adaptive, cap, buf=None):
        p = Pool()
        if buf is None:
            p.shared_serial = self.fresh()
            p.chunks = [[p.shared_serial, 0, 0]]
        else:
            bufsize, mis = buf
            loss = (8 - mis) % 8
            p.own = False
            p.shared_serial = self.fresh()
            p.chunks = [[p.shared_serial, bufsize - loss - SHARED - HDR, 0]]
        self.slots[slot] = {"pool": p, "min": cap, "adaptive": adaptive}
        return p

    def size(self, p):
        return sum(c[2] for c in p.chunks)

    def cap(self, p):
        return sum(c[1] for c in p.chunks)

    def malloc(self, slot, n):
        h = self.slots[slot]
        p = h["pool"]
        if n == 0:
            return None
        n = align(n)
        if p.chunks[0][2] + n > p.chunks[0][1]:
            c = self.chunk_size(h, n)
            p.chunks.insert(0, [self.fresh(), c, 0])
        ptr = (p.chunks[0][0], p.chunks[0][2])
        p.chunks[0][2] += n
        return ptr

    def realloc(self, slot, ptr, old, new):
        h = self.slots[slot]
        p = h["pool"]
        if ptr is None:
            return self.malloc(slot, new), False
        if new == 0:
            return None, False
        old, new = align(old), align(new)
        if old >= new:
            return ptr, False
        head = p.chunks[0]
        if ptr[0] == head[0] and head[2] >= old and ptr[1] == head[2] - old:
            inc = new - old
            if head[2] + inc <= head[1]:
                head[2] += inc
                return ptr, False
        q = self.malloc(slot, new)
        return q, True

    def clear(self, p):
        freed = len(p.chunks) - 1
        p.chunks = p.chunks[-1:]
        p.chunks[0][2] = 0
        self.blocks = [b for b in self.blocks if b["pool"] is not p]
        return freed

    def release(self, h):
        """destructor of a handle"""
        p = h["pool"]
        if p is None:
            return 0
        if p.refcount > 1:
            p.refcount -= 1
            return 0
        freed = self.clear(p)
        if p.own:
            freed += 1
        p.refcount = 0
        return freed


def sc(M, p):
    return f" size={M.size(p)} cap={M.cap(p)}"


def pstr(ptr):
    return "null" if ptr is None else f"c{ptr[0]}+{ptr[1]}"


def gen_case(rng, nops):
    """returns (lines, expected lines without the mem= suffix)"""
    M = Mirror()
    adaptive = rng.random() < 0.5
    pol = "adaptive" if adaptive else "simple"
    cap = rng.choice([64, 64, 1024, 65536, 100, 8, 1])
    lines, exp = ["pool-reset"], ["ok"]

    def sizes():
        return rng.choice([0, 1, 7, 8, 9, 13, 16, 24, max(0, cap - 8), cap, cap + 1, 2 * cap, 3 * cap + 5, rng.randrange(0, 300), rng.randrange(0, 70000)])

    def mk(slot, c):
        if rng.random() < 0.7:
            p = M.new(slot, adaptive, c)
            lines.append(f"pool-new {slot} {pol} {c}")
        else:
            mis = rng.randrange(0, 8)
            loss = (8 - mis) % 8
            bufsize = loss + 56 + rng.choice([0, 8, 64, 200, 4096])
            p = M.new(slot, adaptive, c, (bufsize, mis))
            lines.append(f"pool-newbuf {slot} {pol} {c} {bufsize} {mis}")
        exp.append("ok" + sc(M, p))
    mk(0, cap)
    for _ in range(nops):
        live = [s for s, h in M.slots.items() if h["pool"] is not None]
        if not live:
            break
        s = rng.choice(live)
        h = M.slots[s]
        p = h["pool"]
        r = rng.random()
        if r < 0.40:
            n = sizes()
            ptr = M.malloc(s, n)
            lines.append(f"pool-malloc {s} {n}")
            exp.append(pstr(ptr) + sc(M, p))
            if ptr is not None:
                M.blocks.append({"n": M.nblk, "ptr": ptr, "req": n, "pool": p})
                M.nblk += 1
        elif r < 0.66:
            if M.blocks and rng.random() < 0.9:
                b = rng.choice(M.blocks if rng.random() < 0.5 else M.blocks[-2:])
                n = rng.choice([0, b["req"], b["req"] + 1, b["req"] + 8, b["req"] * 2, max(0, b["req"] - 1), sizes()])
                q, moved = M.realloc(s, b["ptr"], b["req"], n)
                lines.append(f"pool-realloc {s} {b['n']} {b['req']} {n}")
                e = pstr(q) + sc(M, p)
                if q is not None and q == b["ptr"]:
                    e += " same"
                    if n > b["req"]:
                        b["req"] = n
                elif q is not None:
                    e += " copy=ok"
                    M.blocks.append({"n": M.nblk, "ptr": q, "req": n, "pool": p})
                    M.nblk += 1
                exp.append(e)
            else:
                n = sizes()
                q, _ = M.realloc(s, None, 0, n)
                lines.append(f"pool-realloc {s} null 0 {n}")
                exp.append(pstr(q) + sc(M, p))
                if q is not None:
                    M.blocks.append({"n": M.nblk, "ptr": q, "req": n, "pool": p})
                    M.nblk += 1
        elif r < 0.71:
            freed = M.clear(p)
            lines.append(f"pool-clear {s}")
            exp.append(f"ok freed={freed}" + sc(M, p))
        elif r < 0.77:
            lines.append(f"pool-stat {s}")
            exp.append(sc(M, p)[1:] + f" shared={1 if p.refcount > 1 else 0}")
        elif r < 0.88:
            free = [x for x in range(8) if x not in M.slots]
            if not free:
                continue
            d = rng.choice(free)
            if rng.random() < 0.6:
                p.refcount += 1
                M.slots[d] = {"pool": p, "min": h["min"], "adaptive": adaptive}
                lines.append(f"pool-copy {d} {s}")
            else:
                M.slots[d] = {"pool": p, "min": h["min"], "adaptive": adaptive}
                h["pool"] = None
                lines.append(f"pool-move {d} {s}")
            exp.append("ok")
        elif r < 0.93:
            if rng.random() < 0.15:
                # self-assignment through an alias (`a = a`): the object is the only or one of several holders; nothing may change
                lines.append(f"pool-assign {s} {s}")
                exp.append("ok")
                continue
            others = [x for x in M.slots if x != s]
            if not others:
                continue
            d = rng.choice(others)
            hd = M.slots[d]
            if rng.random() < 0.5:
                p.refcount += 1
                M.release(hd)
                hd["pool"], hd["min"] = p, h["min"]
                lines.append(f"pool-assign {d} {s}")
            else:
                M.release(hd)
                hd["pool"], hd["min"] = p, h["min"]
                h["pool"] = None
                lines.append(f"pool-massign {d} {s}")
            M.blocks = [b for b in M.blocks if b["pool"].refcount > 0]
            exp.append("ok")
        elif r < 0.97:
            d = rng.choice(list(M.slots))
            freed = M.release(M.slots[d])
            del M.slots[d]
            M.blocks = [b for b in M.blocks if b["pool"].refcount > 0]
            lines.append(f"pool-destroy {d}")
            exp.append(f"ok freed={freed}")
        else:
            free = [x for x in range(8) if x not in M.slots]
            if free:
                mk(rng.choice(free), rng.choice([64, 1024, cap]))
    # tidy up: destroy everything (the harness aborts on leaked regions at reset)
    for d in list(M.slots):
        freed = M.release(M.slots[d])
        del M.slots[d]
        lines.append(f"pool-destroy {d}")
        exp.append(f"ok freed={freed}")
    return lines, exp
