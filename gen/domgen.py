"""Operation-sequence generator for the DOM protocol (protocol/dom.md) with a Python mirror of the
'simple model' of property C12 (arrays = lists of values, objects = lists of key/value pairs, RemoveMember moves
the last member into the hole).  The mirror serves two purposes: it lets the generator emit only operations whose
preconditions hold, and it yields the EXPECTED observable outputs (trees, lookup results, equality) independently of
both the Lean model and the implementation."""
import copy

from lib import tree as T

KEYS = [b"a", b"b", b"c", b"d", b"e", b"", b"key", b"k" * 16, b"k" * 31, b"k" * 32, b"k" * 33, b"x\ny", b"\xff\x00z", b"aa", b"ab"]


# ---------------------------------------------------------------- values (mutable python structures)
def arr(xs=None):
    return ["arr", xs if xs is not None else []]


def obj(kv=None):
    return ["obj", kv if kv is not None else []]


def is_arr(v):
    return isinstance(v, list) and v[0] == "arr"


def is_obj(v):
    return isinstance(v, list) and v[0] == "obj"


def show(v):
    if v is None:
        return "n"
    if v is True:
        return "t"
    if v is False:
        return "f"
    if isinstance(v, tuple):
        if v[0] == "s":
            return "s" + (v[1].hex() or "-")
        return v[0] + str(v[1])
    if v[0] == "arr":
        return "[" + ",".join(show(x) for x in v[1]) + "]"
    return "{" + ",".join("k" + (k.hex() or "-") + ":" + show(x) for k, x in v[1]) + "}"


def from_tree(t):
    """lib.tree value -> mutable value"""
    if isinstance(t, tuple) and t[0] == "arr":
        return arr([from_tree(x) for x in t[1]])
    if isinstance(t, tuple) and t[0] == "obj":
        return obj([[k, from_tree(x)] for k, x in t[1]])
    return t


def jeq(a, b):
    """JSON value equality with number kinds distinguished; objects as maps (duplicate-free inputs)"""
    if is_arr(a) and is_arr(b):
        return len(a[1]) == len(b[1]) and all(jeq(x, y) for x, y in zip(a[1], b[1]))
    if is_obj(a) and is_obj(b):
        if len(a[1]) != len(b[1]):
            return False
        for k, x in a[1]:
            m = [y for kk, y in b[1] if kk == k]
            if not m or not jeq(x, m[0]):
                return False
        return True
    if isinstance(a, list) or isinstance(b, list):
        return False
    return a == b and type(a) == type(b)


def has_dups(v):
    if is_arr(v):
        return any(has_dups(x) for x in v[1])
    if is_obj(v):
        ks = [k for k, _ in v[1]]
        return len(set(ks)) != len(ks) or any(has_dups(x) for _, x in v[1])
    return False


def lit(rng, allow_nonfinite=False):
    """(protocol literal, mirror value)"""
    r = rng.random()
    if r < 0.08:
        return "null", None
    if r < 0.14:
        return rng.choice([("true", True), ("false", False)])
    if r < 0.30:
        n = rng.choice([0, 1, 7, 2 ** 31, 2 ** 63, 2 ** 64 - 1, rng.randrange(0, 2 ** 64)])
        return f"u{n}", ("u", n)
    if r < 0.40:
        n = rng.choice([-1, -5, -2 ** 63, rng.randrange(-2 ** 63, 0), 5, 0])
        return f"i{n}", (("i", n) if n < 0 else ("u", n))
    if r < 0.52:
        import struct
        choices = [0, 1 << 63, 0x3FF0000000000000, 0x3FB999999999999A, 0x7FEFFFFFFFFFFFFF, 1, rng.getrandbits(64)]
        if allow_nonfinite:
            choices += [0x7FF0000000000000, 0xFFF0000000000000, 0x7FF8000000000000]
        b = rng.choice(choices)
        if not allow_nonfinite and ((b >> 52) & 0x7FF) == 0x7FF:
            b = 0x4000000000000000
        return f"d{b}", ("d", b)
    if r < 0.75:
        s = rng.choice([b"", b"x", b"hello", b'q"\\\n', b"\x00\x01\x1f", b"\xff\xfe", b"s" * 31, b"s" * 32, b"s" * 70, bytes(rng.randrange(256) for _ in range(rng.randrange(0, 40)))])
        return (rng.choice("sc") + (s.hex() or "-")), ("s", s)
    if r < 0.88:
        return "arr", arr()
    return "obj", obj()


class Mirror:
    def __init__(self):
        self.docs = [None, None, None, None]

    # path = list of ("i", n) / ("m", n)
    def get(self, d, path):
        v = self.docs[d]
        for kind, n in path:
            if kind == "i":
                if not is_arr(v) or n >= len(v[1]):
                    return KeyError
                v = v[1][n]
            else:
                if not is_obj(v) or n >= len(v[1]):
                    return KeyError
                v = v[1][n][1]
        return v

    def put(self, d, path, val):
        if not path:
            self.docs[d] = val
            return
        parent = self.get(d, path[:-1])
        kind, n = path[-1]
        if kind == "i":
            parent[1][n] = val
        else:
            parent[1][n][1] = val

    def all_paths(self, d):
        out = []

        def walk(v, p):
            out.append(p)
            if is_arr(v):
                for i, x in enumerate(v[1]):
                    walk(x, p + [("i", i)])
            elif is_obj(v):
                for i, (_, x) in enumerate(v[1]):
                    walk(x, p + [("m", i)])
        walk(self.docs[d], [])
        return out


def pstr(path):
    return "/" + "/".join(k + str(n) for k, n in path) if path else "/"


def is_prefix(a, b):
    return len(a) <= len(b) and b[:len(a)] == a


def render_json(v, rng=None):
    """JSON text of a mirror value (finite doubles only); strings use short escapes / \\u00XX for specials, raw bytes >= 0x80"""
    import struct
    if v is None:
        return b"null"
    if v is True:
        return b"true"
    if v is False:
        return b"false"
    if isinstance(v, tuple):
        if v[0] in "ui":
            return str(v[1]).encode()
        if v[0] == "d":
            f = struct.unpack("<d", struct.pack("<Q", v[1]))[0]
            return repr(f).encode()
        out = bytearray(b'"')
        for b in v[1]:
            if b == 0x22:
                out += b'\\"'
            elif b == 0x5C:
                out += b"\\\\"
            elif b < 0x20:
                out += b"\\u%04x" % b
            else:
                out.append(b)
        return bytes(out) + b'"'
    ws = (lambda: rng.choice([b"", b"", b" ", b"\n", b" " * 40])) if rng else (lambda: b"")
    if v[0] == "arr":
        return b"[" + b",".join(ws() + render_json(x, rng) + ws() for x in v[1]) + b"]"
    return b"{" + b",".join(ws() + render_json(("s", k), rng) + ws() + b":" + ws() + render_json(x, rng) for k, x in v[1]) + b"}"


def rand_tree(rng, depth=0):
    r = rng.random()
    if depth > 2 or r < 0.5:
        l, v = lit(rng)
        while l in ("arr", "obj"):
            l, v = lit(rng)
        return v
    if r < 0.75:
        return arr([rand_tree(rng, depth + 1) for _ in range(rng.randrange(0, 5))])
    keys = rng.sample(KEYS, rng.randrange(0, 5))
    return obj([[k, rand_tree(rng, depth + 1)] for k in keys])


def gen_case(rng, alloc, nops, dups=False, allow_nonfinite=False, maps=True, cross=True, focus=0.0, parses=False):
    """returns (lines, expected) where expected[i] is a dict of the L1-observable fields of line i (or None)"""
    M = Mirror()
    lines, exp = ["dom-reset " + alloc], [{"ok": True}]
    mapped = set()   # ids of python obj lists that currently have a map (generator bookkeeping only)

    def emit(line, e):
        lines.append(line)
        exp.append(e)

    def pick(pred, d=None):
        # `focus`: concentrate on the two root containers so that they grow past the capacity steps 16 -> 24 -> 36 -> 54
        if d is None and rng.random() < focus:
            for dd in rng.sample([0, 1], 2):
                if pred(M.docs[dd]):
                    return dd, []
        ds = [d] if d is not None else [0, 0, 0, 1, 1, 2]
        rng.shuffle(ds)
        for dd in ds:
            ps = [p for p in M.all_paths(dd) if pred(M.get(dd, p))]
            if ps:
                # prefer deeper / larger containers sometimes
                return dd, rng.choice(ps)
        return None

    def docs_fields(d, d2=None):
        e = {"doc": show(M.docs[d])}
        if d2 is not None:
            e["doc2"] = show(M.docs[d2])
        return e

    def fresh_key(o):
        used = {k for k, _ in o[1]}
        cand = [k for k in KEYS if k not in used]
        if cand and rng.random() < 0.8:
            return rng.choice(cand)
        return b"n%d" % rng.randrange(10 ** 6)

    for d0, l0, v0 in ((0, "obj", obj()), (1, "arr", arr()), (2, "obj", obj())):
        M.put(d0, [], v0)
        emit(f"dom-set {d0} / {l0}", dict(docs_fields(d0), ok=True))
    attempts = 0
    while len(lines) < nops + 4 and attempts < nops * 6:
        attempts += 1
        r = rng.random()
        if parses and rng.random() < 0.08:   # (re)parse text into a used document; afterwards no cross-document node move/swap
            d = rng.choice([0, 1, 2])
            v = rand_tree(rng)
            text = render_json(v, rng)
            cross = False
            if rng.random() < 0.25 and len(text) > 1:
                # a proper prefix of a container / string literal is never valid JSON; scalars get trailing garbage instead
                text = text[: rng.randrange(1, len(text))] if (text[:1] in (b"[", b"{", b'"') and rng.random() < 0.6) else text + b" x"
                M.docs[d] = None
                emit(f"dom-parse {d} {text.hex()}", {"doc": "n", "_err": True})
            else:
                M.docs[d] = v
                emit(f"dom-parse {d} {text.hex() or '-'}", dict(docs_fields(d), ok=True))
            continue
        if r < 0.06:   # set
            d = rng.choice([0, 0, 1, 2])
            p = rng.choice(M.all_paths(d))
            l, v = lit(rng, allow_nonfinite)
            M.put(d, p, v)
            emit(f"dom-set {d} {pstr(p)} {l}", dict(docs_fields(d), ok=True))
        elif r < 0.30:  # add member
            t = pick(is_obj)
            if not t:
                continue
            d, p = t
            o = M.get(d, p)
            key = rng.choice([k for k, _ in o[1]] + KEYS) if (dups and o[1] and rng.random() < 0.3) else fresh_key(o)
            l, v = lit(rng, allow_nonfinite)
            o[1].append([key, v])
            emit(f"dom-add {d} {pstr(p)} {key.hex() or '-'} {l} {rng.choice('01')}", dict(docs_fields(d), idx=str(len(o[1]) - 1)))
        elif r < 0.38:  # remove member
            t = pick(is_obj)
            if not t:
                continue
            d, p = t
            o = M.get(d, p)
            key = rng.choice([k for k, _ in o[1]]) if o[1] and rng.random() < 0.8 else rng.choice(KEYS)
            idx = next((i for i, (k, _) in enumerate(o[1]) if k == key), None)
            if idx is not None:
                last = o[1].pop()
                if idx < len(o[1]):
                    o[1][idx] = last
            emit(f"dom-remove {d} {pstr(p)} {key.hex() or '-'}", dict(docs_fields(d), r="1" if idx is not None else "0"))
        elif r < 0.42:  # erase members
            t = pick(is_obj)
            if not t:
                continue
            d, p = t
            o = M.get(d, p)
            n = len(o[1])
            f = rng.randrange(0, n + 1)
            l = rng.choice([f, n, rng.randrange(f, n + 1)])
            del o[1][f:l]
            mapped.discard(id(o))
            emit(f"dom-erasemem {d} {pstr(p)} {f} {l}", dict(docs_fields(d), ret=str(f) if not (l - f >= n) else str(len(o[1]))))
        elif r < 0.46:  # member reserve / reserve
            t = pick(lambda v: is_obj(v) or is_arr(v))
            if not t:
                continue
            d, p = t
            v = M.get(d, p)
            n = rng.choice([0, 1, 15, 16, 17, 24, 25, 40, len(v[1]), len(v[1]) + 1])
            emit(f"dom-{'mreserve' if is_obj(v) else 'reserve'} {d} {pstr(p)} {n}", dict(docs_fields(d), ok=True))
        elif r < 0.52 and maps:  # create / destroy map
            t = pick(is_obj)
            if not t:
                continue
            d, p = t
            o = M.get(d, p)
            if rng.random() < 0.7 and not has_dups(o):
                mapped.add(id(o))
                emit(f"dom-createmap {d} {pstr(p)}", dict(docs_fields(d), ok=True))
            else:
                mapped.discard(id(o))
                emit(f"dom-destroymap {d} {pstr(p)}", dict(docs_fields(d), ok=True))
        elif r < 0.64:  # push / pop / erase on arrays
            t = pick(is_arr)
            if not t:
                continue
            d, p = t
            a = M.get(d, p)
            rr = rng.random()
            if rr < 0.6 or not a[1]:
                l, v = lit(rng, allow_nonfinite)
                a[1].append(v)
                emit(f"dom-push {d} {pstr(p)} {l}", dict(docs_fields(d), ok=True))
            elif rr < 0.8:
                a[1].pop()
                emit(f"dom-pop {d} {pstr(p)}", dict(docs_fields(d), ok=True))
            else:
                n = len(a[1])
                f = rng.randrange(0, n + 1)
                l = rng.choice([f, n, rng.randrange(f, n + 1)])
                del a[1][f:l]
                emit(f"dom-erase {d} {pstr(p)} {f} {l}", dict(docs_fields(d), ret=str(f)))
        elif r < 0.67:  # clear
            t = pick(lambda v: is_obj(v) or is_arr(v))
            if not t:
                continue
            d, p = t
            v = M.get(d, p)
            del v[1][:]
            mapped.discard(id(v))
            emit(f"dom-clear {d} {pstr(p)}", dict(docs_fields(d), ok=True))
        elif r < 0.76:  # move / swap / copy
            kind = rng.choice(["move", "swap", "copy", "copy"])
            d, d2 = rng.choice([0, 1, 2]), rng.choice([0, 1, 2])
            if kind != "copy" and alloc == "pool":
                d2 = d
            if not cross:
                d2 = d
            p, p2 = rng.choice(M.all_paths(d)), rng.choice(M.all_paths(d2))
            same = d == d2
            if kind == "move":
                if same and is_prefix(p2, p) and p2 != p:
                    continue
                if same and p == p2:
                    emit(f"dom-move {d} {pstr(p)} {d2} {pstr(p2)}", docs_fields(d, d2))
                    continue
                v = M.get(d2, p2)
                M.put(d2, p2, None)
                # dst may have been inside nothing of src (src not ancestor of dst), but src may be inside dst: fine
                M.put(d, p, v)
                emit(f"dom-move {d} {pstr(p)} {d2} {pstr(p2)}", docs_fields(d, d2))
            elif kind == "swap":
                if same and p != p2 and (is_prefix(p, p2) or is_prefix(p2, p)):
                    continue
                a, b = M.get(d, p), M.get(d2, p2)
                if not (same and p == p2):
                    M.put(d, p, b)
                    M.put(d2, p2, a)
                emit(f"dom-swap {d} {pstr(p)} {d2} {pstr(p2)}", docs_fields(d, d2))
            else:
                if same and (is_prefix(p, p2) or is_prefix(p2, p)):
                    continue   # aliasing precondition of CopyFrom
                v = copy.deepcopy(M.get(d2, p2))
                M.put(d, p, v)
                emit(f"dom-copy {d} {pstr(p)} {d2} {pstr(p2)} {rng.choice('01')}", docs_fields(d, d2))
        elif r < 0.78:  # document move / swap
            d, d2 = rng.sample([0, 1, 2, 3], 2)
            if rng.random() < 0.5:
                M.docs[d] = M.docs[d2]
                M.docs[d2] = None
                emit(f"dom-docmove {d} {d2}", docs_fields(d, d2))
            else:
                M.docs[d], M.docs[d2] = M.docs[d2], M.docs[d]
                emit(f"dom-docswap {d} {d2}", docs_fields(d, d2))
        elif r < 0.90:  # lookups
            t = pick(is_obj)
            if t and rng.random() < 0.6:
                d, p = t
                o = M.get(d, p)
                key = rng.choice([k for k, _ in o[1]]) if o[1] and rng.random() < 0.7 else rng.choice(KEYS)
                idx = next((i for i, (k, _) in enumerate(o[1]) if k == key), None)
                ks = [k for k, _ in o[1]]
                e = {"sv": str(idx) if idx is not None else "none", "pl": str(idx) if idx is not None else "none",
                     "has": "1" if idx is not None else "0", "at": show(o[1][idx][1]) if idx is not None else "n",
                     "_skip": len(set(ks)) != len(ks)}
                emit(f"dom-find {d} {pstr(p)} {key.hex() or '-'}", e)
            else:
                d = rng.choice([0, 1, 2])
                p = rng.choice(M.all_paths(d))
                v = M.get(d, p)
                steps, cur, dupseen = [], v, False
                for _ in range(rng.randrange(0, 4)):
                    if is_obj(cur):
                        ks = [k for k, _ in cur[1]]
                        dupseen = dupseen or len(set(ks)) != len(ks)
                        key = rng.choice(ks) if ks and rng.random() < 0.8 else rng.choice(KEYS)
                        steps.append("k" + (key.hex() or "-"))
                        idx = next((i for i, (k, _) in enumerate(cur[1]) if k == key), None)
                        cur = cur[1][idx][1] if idx is not None else KeyError
                    elif is_arr(cur):
                        n = rng.choice(list(range(len(cur[1]))) + [len(cur[1]), -1, len(cur[1]) + 1])
                        steps.append("n%d" % n)
                        cur = cur[1][n] if 0 <= n < len(cur[1]) else KeyError
                    else:
                        steps.append(rng.choice(["k61", "n0"]))
                        cur = KeyError
                    if cur is KeyError:
                        break
                emit(f"dom-at {d} {pstr(p)} " + " ".join(steps), {"at": "none" if cur is KeyError else show(cur), "_skip": dupseen})
        elif r < 0.94:  # info
            d = rng.choice([0, 1, 2])
            p = rng.choice(M.all_paths(d))
            v = M.get(d, p)
            if is_arr(v) or is_obj(v):
                e = {"size": str(len(v[1])), "empty": "1" if not v[1] else "0"}
                if is_arr(v) and v[1]:
                    e["back"] = show(v[1][-1])
            elif isinstance(v, tuple) and v[0] == "s":
                e = {"size": str(len(v[1])), "empty": "1" if not v[1] else "0"}
            else:
                e = {"scalar": True}
            emit(f"dom-info {d} {pstr(p)}", e)
        else:  # equality
            d, d2 = rng.choice([0, 1, 2]), rng.choice([0, 1, 2])
            p, p2 = rng.choice(M.all_paths(d)), rng.choice(M.all_paths(d2))
            a, b = M.get(d, p), M.get(d2, p2)
            q = jeq(a, b)
            emit(f"dom-eq {d} {pstr(p)} {d2} {pstr(p2)}", {"eq": "1" if q else "0", "ne": "0" if q else "1", "eqr": "1" if q else "0", "refl": "1",
                                                         "_skip": has_dups(a) or has_dups(b)})
    return M, lines, exp


def vlit(v):
    """protocol literal of a scalar mirror value"""
    if v is None:
        return "null"
    if v is True:
        return "true"
    if v is False:
        return "false"
    if v[0] == "s":
        return "s" + (v[1].hex() or "-")
    return v[0] + str(v[1])


def build_cmds(d, path, v, out):
    """dom-* commands that assemble value v at node `path` of document d through the mutation API"""
    ps = pstr(path)
    if is_arr(v):
        out.append(f"dom-set {d} {ps} arr")
        for i, x in enumerate(v[1]):
            if isinstance(x, list):
                out.append(f"dom-push {d} {ps} null")
                build_cmds(d, path + [("i", i)], x, out)
            else:
                out.append(f"dom-push {d} {ps} {vlit(x)}")
    elif is_obj(v):
        out.append(f"dom-set {d} {ps} obj")
        for i, (k, x) in enumerate(v[1]):
            if isinstance(x, list):
                out.append(f"dom-add {d} {ps} {k.hex() or '-'} null 1")
                build_cmds(d, path + [("m", i)], x, out)
            else:
                out.append(f"dom-add {d} {ps} {k.hex() or '-'} {vlit(x)} 1")
    else:
        out.append(f"dom-set {d} {ps} {vlit(v)}")


NONFINITE = [0x7FF0000000000000, 0xFFF0000000000000, 0x7FF8000000000000, 0xFFF8000000000000, 0x7FF0000000000001, 0x7FF4000000000000,
             0xFFFFFFFFFFFFFFFF, 0x7FFFFFFFFFFFFFFF, 0x7FF00000DEADBEEF]


def api_tree(rng, depth=0, nonfinite=0.0, maxdepth=3):
    """random value for API-built documents: arbitrary string bytes, all number kinds, optionally non-finite doubles"""
    r = rng.random()
    if depth >= maxdepth or r < 0.45:
        if rng.random() < nonfinite:
            return ("d", rng.choice(NONFINITE) if rng.random() < 0.8 else (0x7FF << 52) | rng.getrandbits(52) | (rng.getrandbits(1) << 63))
        l, v = lit(rng)
        while l in ("arr", "obj"):
            l, v = lit(rng)
        return v
    n = rng.choice([0, 0, 1, 2, 3, 5, 9])
    if r < 0.72:
        return arr([api_tree(rng, depth + 1, nonfinite, maxdepth) for _ in range(n)])
    keys = [rng.choice(KEYS) if rng.random() < 0.7 else bytes(rng.randrange(256) for _ in range(rng.randrange(0, 40))) for _ in range(n)]
    return obj([[k, api_tree(rng, depth + 1, nonfinite, maxdepth)] for k in keys])


def finish(M, lines, exp, rng, dump=True):
    if dump:
        for d in (0, 1):
            fin = T.all_finite(T.parse(show(M.docs[d])))
            lines.append(f"dom-dumpwb {d} / {rng.choice([0, 1, 8, 64, 256])} {rng.choice([0, 0, 1, 2])}")
            exp.append({"_dump": True, "finite": fin, "tree": show(M.docs[d]), "dups": has_dups(M.docs[d])})
    lines.append("dom-end")
    exp.append({"ok": True, "ledger": "ok"})
    return lines, exp


FIELDS = [b"id", b"name", b"created_at", b"updated_at", b"firstname", b"lastname", b"gender", b"email", b"description", b"zip", b"address_line_1",
          b"address_line_2", b"phone", b"is_active", b"k", b"zzzzzzzza", b"azzzzzzzz", b"status", b"user_id", b"organization", b"a", b"ab", b"abcdefgh",
          b"abcdefgi", b"hgfedcba", b"hgfedcbb", b"\xffaaaaaaa", b"a\xffaaaaaa", b"aaaaaaa\xff", b"", b"type", b"timestamp"]


def wide_keys(rng):
    """8-28 distinct keys as real records have them: short (< 8 bytes) and long mixed, long keys whose byte order and first-word order
    disagree, plus one family of equally long keys (> 64 bytes, no multiple of 32) that differ in exactly one byte - first, last, at the
    32-byte block edges and just in front of the last 32 bytes"""
    keys = rng.sample(FIELDS, rng.randrange(8, 22))
    L = rng.choice([65, 70, 95, 100, 130, 191])
    base = bytes([0x4C]) * L
    fam = [base]
    for p in sorted({0, 31, 32, 33, (L - 32) // 32 * 32, L - 33, L - 32, L - 1}):
        if 0 <= p < L:
            fam.append(base[:p] + b"M" + base[p + 1:])
    keys += rng.sample(fam, min(len(fam), rng.randrange(2, 7)))
    rng.shuffle(keys)
    return keys


def wide_lookup(rng, alloc):
    """every key of a wide object looked up through every overload: without a map, with a map, after the map was destroyed, with a new map"""
    keys = wide_keys(rng)
    lines = [f"dom-reset {alloc}", "dom-set 0 / obj"]
    exp = [{"_skip": True}, {"_skip": True}]
    for i, k in enumerate(keys):
        lines.append(f"dom-add 0 / {k.hex() or '-'} u{i} {rng.choice('01')}")
        exp.append({"_skip": True})
    probes = list(keys) + [k[:-1] for k in keys[:5] if k] + [k + b"L" for k in keys[:5]]

    def look():
        for pk in probes:
            idx = keys.index(pk) if pk in keys else None
            lines.append(f"dom-find 0 / {pk.hex() or '-'}")
            exp.append({"sv": str(idx) if idx is not None else "none", "pl": str(idx) if idx is not None else "none",
                        "has": "1" if idx is not None else "0", "at": f"u{idx}" if idx is not None else "n"})
    look()
    for cmd in ("dom-createmap 0 /", "dom-destroymap 0 /", "dom-createmap 0 /"):
        lines.append(cmd)
        exp.append({"_skip": True})
        look()
    lines.append("dom-end")
    exp.append({"ok": True, "ledger": "ok"})
    return lines, exp

