"""Type-directed generators of JSON texts (valid, with layout variation) and of malformed streams.
Everything is driven by the `random.Random` instance passed in, so a case replays from (generator, seed, index)."""

WS = [b"", b"", b"", b" ", b"  ", b"\n", b"\t", b"\r\n", b" " * 30, b" " * 63, b" " * 64, b" " * 65, b" \n\t\r" * 33,
      b"  \r", b"  \t", b"  \n", b"\r\r\r", b"\t\t\t", b"\n\n\r\n", b" \r ", b"\r", b"\n\r\n\r\t"]

KEYS = [b"a", b"b", b"c", b"key", b"", b"k" * 15, b"k" * 16, b"k" * 31, b"k" * 32, b"k" * 33, b"a\\nb", b"\\u0061", b"x\\\"y", b"[]{}:,",
        b"\\ud83d\\ude00", b"caf\xc3\xa9", b"a b", b"a\\u0000b", b"\\u0000", b"a\\u0000",
        # long keys whose escape sits in an earlier 16/32-byte block than the closing quote
        b"\\u0061" + b"b" * 40, b"q" * 20 + b"\\n" + b"r" * 30, b"\\\\" + b"z" * 33, b"k" * 31 + b"\\\"" + b"k" * 3, b"m" * 70]
STRS = [b"", b"x", b"hello", b"a\\nb", b"\\\"", b"\\\\", b"\\/", b"\\b\\f\\r\\t", b"\\u0041", b"\\u00e9", b"\\u20ac", b"\\ud83d\\ude00",
        b"]}\\\"[{", b"s" * 15, b"s" * 16, b"s" * 17, b"s" * 31, b"s" * 32, b"s" * 33, b"s" * 63, b"s" * 64, b"s" * 65,
        b"caf\xc3\xa9", b"\xff\xfe", b"\x7f", b"tab\\there", b"," * 40, b"\\\\" * 20, b"x" * 31 + b"\\n", b"x" * 32 + b"\\n"]
NUMS = [b"0", b"-0", b"1", b"-1", b"9", b"10", b"123456789", b"18446744073709551615", b"18446744073709551616", b"9223372036854775807",
        b"-9223372036854775808", b"-9223372036854775809", b"0.0", b"-0.0", b"1.5", b"0.1", b"1e5", b"1E+5", b"1e-5", b"-2.5e-3",
        b"1.7976931348623157e308", b"4.9e-324", b"2.2250738585072014e-308", b"123456789012345678901234567890", b"0.000001",
        b"1e22", b"1e23", b"3.141592653589793", b"0e0", b"0e-5", b"100e-2", b"12345678901234567.0", b"0.30000000000000004"]


def gen_value(rng, depth=0, maxdepth=5, budget=None):
    """returns bytes of one JSON value with random inner whitespace"""
    if budget is None:
        budget = [40]
    budget[0] -= 1
    r = rng.random()
    if depth >= maxdepth or budget[0] <= 0:
        r = r * 0.6
    if r < 0.08:
        return b"null"
    if r < 0.14:
        return b"true"
    if r < 0.20:
        return b"false"
    if r < 0.40:
        return gen_number(rng)
    if r < 0.60:
        return b'"' + gen_strbody(rng) + b'"'
    ws = lambda: rng.choice(WS) if rng.random() < 0.25 else b""
    if r < 0.80:
        n = rng.choice([0, 0, 1, 2, 3, 4, 5, 8, 17]) if budget[0] > 5 else rng.choice([0, 1])
        if n == 0:
            return b"[" + ws() + b"]"
        return b"[" + b",".join(ws() + gen_value(rng, depth + 1, maxdepth, budget) + ws() for _ in range(n)) + b"]"
    n = rng.choice([0, 0, 1, 2, 3, 4, 5, 8, 17, 33]) if budget[0] > 5 else rng.choice([0, 1])
    if n == 0:
        return b"{" + ws() + b"}"
    keys = gen_keys(rng, n)
    return b"{" + b",".join(ws() + b'"' + k + b'"' + ws() + b":" + ws() + gen_value(rng, depth + 1, maxdepth, budget) + ws() for k in keys) + b"}"


def gen_keys(rng, n, dup=None):
    if dup is None:
        dup = rng.random() < 0.1
    keys = []
    pool = list(KEYS)
    rng.shuffle(pool)
    for i in range(n):
        if dup and keys and rng.random() < 0.4:
            keys.append(rng.choice(keys))
        elif i < len(pool) and rng.random() < 0.6:
            keys.append(pool[i])
        else:
            keys.append(b"k%d" % i)
    if not dup:
        seen, out = set(), []
        for i, k in enumerate(keys):
            dk = decode_key(k)
            if dk in seen:
                k = b"u%d" % i
                dk = k
            seen.add(dk)
            out.append(k)
        keys = out
    return keys


def decode_key(k):
    """decoded form of the few escaped spellings used in KEYS (for duplicate avoidance only)"""
    return (k.replace(b"\\n", b"\n").replace(b"\\u0061", b"a").replace(b'\\"', b'"').replace(b"\\u0000", b"\x00"))


def surrogate_pair(rng):
    """\\uXXXX\\uXXXX spelling of a random supplementary code point (all 16 planes, plane borders over-represented)"""
    cp = rng.choice([0x10000, 0x1FFFF, 0x20000, 0x2FFFF, 0x30000, 0x40000, 0x8FFFF, 0x90000, 0xFFFFF, 0x100000, 0x10FFFF,
                     rng.randrange(0x10000, 0x110000), rng.randrange(0x10000, 0x110000)])
    v = cp - 0x10000
    fmt = rng.choice(["\\u%04x\\u%04x", "\\u%04X\\u%04X"])
    return (fmt % (0xD800 + (v >> 10), 0xDC00 + (v & 0x3FF))).encode()


def gen_strbody(rng):
    r0 = rng.random()
    if r0 < 0.08:
        return bytes(rng.choice(b"ab ") for _ in range(rng.randrange(0, 40))) + surrogate_pair(rng) + rng.choice([b"", b"z", surrogate_pair(rng)])
    if r0 < 0.7:
        return rng.choice(STRS)
    n = rng.choice([0, 1, 5, 14, 15, 16, 17, 30, 31, 32, 33, 62, 63, 64, 65, 100])
    out = bytearray()
    while len(out) < n:
        r = rng.random()
        if r < 0.8:
            out.append(rng.choice(b"abcXYZ 019[]{}:,'/"))
        elif r < 0.9:
            out += rng.choice([b"\\n", b'\\"', b"\\\\", b"\\t", b"\\u00e9", b"\\ud83d\\ude00", b"\\/"])
        else:
            out.append(rng.choice([0x7F, 0x80, 0xC3, 0xA9, 0xFF]))
    return bytes(out)


def gen_number(rng):
    r = rng.random()
    if r < 0.5:
        return rng.choice(NUMS)
    sign = b"-" if rng.random() < 0.3 else b""
    nd = rng.choice([1, 2, 5, 10, 16, 17, 18, 19, 20, 21, 25])
    ip = str(rng.randrange(10 ** (nd - 1) if nd > 1 else 0, 10 ** nd)).encode()
    s = sign + ip
    if rng.random() < 0.5:
        s += b"." + str(rng.randrange(0, 10 ** rng.choice([1, 3, 8, 17, 25]))).encode()
    if rng.random() < 0.4:
        s += rng.choice([b"e", b"E"]) + rng.choice([b"", b"+", b"-"]) + str(rng.randrange(0, rng.choice([5, 30, 330]))).encode()
    return s


def gen_doc(rng, maxdepth=5):
    lead = rng.choice(WS) if rng.random() < 0.3 else b""
    trail = rng.choice(WS) if rng.random() < 0.3 else b""
    return lead + gen_value(rng, 0, maxdepth) + trail


MUT_ALPHABET = list(b'{}[]:,"\\ \n\t0123456789-+.eEtrufalsn') + [0x00, 0x01, 0x1F, 0x7F, 0x80, 0xFF, ord("x"), ord("/")]


def mutations(rng, text, limit=None):
    """single-byte replacements, deletions and insertions"""
    out = []
    idxs = list(range(len(text)))
    if limit is not None and len(idxs) > limit:
        idxs = rng.sample(idxs, limit)
    for i in idxs:
        b = rng.choice(MUT_ALPHABET)
        out.append(text[:i] + bytes([b]) + text[i + 1:])
        if rng.random() < 0.3:
            out.append(text[:i] + text[i + 1:])
        if rng.random() < 0.3:
            out.append(text[:i] + bytes([rng.choice(MUT_ALPHABET)]) + text[i:])
    return out


def prefixes(text):
    return [text[:i] for i in range(len(text))]


def nesting_texts(rng, maxn=80):
    """deep / uneven nesting, node-stack boundary (len/2+2) cases"""
    out = []
    for n in list(range(0, 20)) + [21, 22, 23, 29, 30, 31, 32, 33, 40, 63, 64, 65, maxn]:
        out.append(b"[" * n)
        out.append(b"[" * n + b"]" * n)
        for m in {0, 1, n // 2, max(0, n - 1)}:
            out.append(b"[" * n + b"]" * m)
        out.append(b'{"a":' * n)
        out.append(b'{"a":' * n + b"1" + b"}" * n)
        out.append(b"[" * n + b"true,true,true,true,true]")
        out.append(b"[" * n + b"1,2,3,4,5,6,7,8]" + b"]" * rng.randrange(0, n + 1))
        out.append(b"[" * n + b'"s","t",null,false]')
        out.append(b"[" * n + b'{"k":1,"j":[1,2]},{}]')
    return out


def hx(b):
    return b.hex() if b else "-"


def number_edges():
    """number spellings at the overflow / underflow boundaries, with every mantissa width 1..19 (the fast-path guards of the number
    parser depend on the digit count): just below / at / above the first decimal that rounds to infinity, around half the smallest
    subnormal, integer-kind boundaries"""
    from fractions import Fraction as F
    out = []
    dmax = F((2 ** 53 - 1) * 2 ** 971)
    over = dmax + F(2) ** 969
    tiny = F(1, 2 ** 1075)
    for nd in range(1, 20):
        e = 308 - (nd - 1)
        m_over = -((-over.numerator) // (over.denominator * 10 ** e))
        for m in (m_over - 1, m_over, m_over + 1):
            if m > 0:
                out.append(b"%de%d" % (m, e))
                out.append(b"-%dE+%d" % (m, e))
                if nd > 1:
                    ms = str(m)
                    out.append((ms[0] + "." + ms[1:] + "e308").encode())
        e2 = -324 - (nd - 1)
        m_t = (tiny.numerator * 10 ** (-e2)) // tiny.denominator
        for m in (m_t, m_t + 1):
            if m > 0:
                out.append(b"%de%d" % (m, e2))
    for base in (2 ** 63, 2 ** 64):
        for d in (-1, 0, 1):
            out.append(str(base + d).encode())
            out.append(b"-" + str(base + d).encode())
    # decimals just below a power of two (closer than a quarter ulp): the correct rounding carries out of the 53-bit significand;
    # written with 18 and 21 significant digits, plain and exponent forms, for binades across the whole range
    import decimal
    ctx = decimal.Context(prec=60)
    for k in list(range(-1021, 1024, 37)) + [-2, -1, 0, 1, 2, 3, 52, 53, 54, 62, 63, 64, 65, 1023]:
        v = ctx.multiply(ctx.power(decimal.Decimal(2), k), ctx.subtract(decimal.Decimal(1), ctx.power(decimal.Decimal(2), -56)))
        for nd in (18, 21):
            t = ("%." + str(nd - 1) + "e") % v
            m, _, e = t.partition("e")
            out.append((m + "e" + str(int(e))).encode())
            if -5 <= int(e) <= 20:
                out.append(("{:f}".format(decimal.Context(prec=nd).create_decimal(v))).encode())
                out.append(b"-" + out[-1])
    out += [b"1e308", b"1e309", b"1.8e308", b"2e308", b"1e400", b"1e-400", b"-1e309", b"0e999999", b"1e99999", b"17976931348623159e292"]
    return out


def ctrl_strings(rng, quick):
    """string-literal bodies (raw bytes between the quotes) containing ONE raw control byte < 0x20 placed after an escape sequence, at
    every distance from the start and from the closing quote that matters for 16/32-byte block scanners; each is invalid JSON"""
    out = []
    escs = [b"\\n", b'\\"', b"\\\\", b"\\u0041", b"\\ud83d\\ude00", b""]
    A = list(range(0, 72))
    B = [0, 1, 5, 13, 14, 15, 16, 17, 28, 29, 30, 31, 32, 33, 47, 62, 63, 64, 65]
    C = [0, 1, 7, 15, 16, 31, 32]
    if quick:
        A = rng.sample(A, 14) + [0, 31]
    for a in A:
        for b in (rng.sample(B, 5) if quick else B):
            for c in (rng.sample(C, 2) if quick else C):
                esc = rng.choice(escs)
                ctrl = rng.choice([0x00, 0x01, 0x09, 0x0A, 0x0D, 0x1F])
                out.append(b"x" * a + esc + b"y" * b + bytes([ctrl]) + b"z" * c)
    return out


def pretty_docs(rng, quick):
    """pretty-printed documents: one value per line, every indentation width 0..140 (whitespace runs shorter / longer than the 32- and
    64-byte scanner blocks, tokens landing in every lane of the cached whitespace bitmap), blanks / tabs / CRLF, 1..9 items per level"""
    import json
    out = []
    widths = list(range(0, 141)) if not quick else sorted(set(rng.sample(range(0, 141), 28) + [0, 1, 2, 30, 31, 32, 33, 34, 35, 36, 62, 63, 64, 65, 66, 127, 128]))
    for w in widths:
        for _ in range(2 if quick else 4):
            n = rng.randrange(1, 10)
            kind = rng.randrange(4)
            if kind == 0:
                v = [rng.choice([i, -i, i + 0.5, "s%d" % i, None, True]) for i in range(n)]
            elif kind == 1:
                v = {"k%d" % i: rng.choice([i, "v%d" % i, [i], {"z": i}]) for i in range(n)}
            elif kind == 2:
                v = [{"id": i, "t": [i, i + 1]} for i in range(n)]
            else:
                v = {"a": [list(range(n)), {"b": {"c": [None] * (n % 4)}}], "e": "x\ny"}
            t = json.dumps(v, indent=w).encode() if w else json.dumps(v, indent=0).encode()
            style = rng.randrange(4)
            if style == 1:
                t = t.replace(b"\n", b"\r\n")
            elif style == 2:
                t = t.replace(b" ", b"\t") if b'"' not in t else t.replace(b"\n" + b" " * w, b"\n" + b"\t" * w)
            elif style == 3:
                t = t.replace(b": ", b" :  ").replace(b",\n", b" ,\n")
            out.append(t)
    return out


def long_numbers(rng):
    """number texts with 700..1200 significant digits that reach the big-decimal fallback of the number parser in each of its shapes:
    subnormal results, overflow to the infinity error, values next to a tie between two doubles, full 800-digit buffers with right /
    left shifts; plus long integers and long fractions that stay on the fast paths"""
    out = []
    for nd in (700, 759, 760, 799, 800, 801, 850, 900, 1200):
        digs = "".join(rng.choice("123456789") for _ in range(nd))
        out.append(("0." + digs + "e-310").encode())                       # subnormal
        out.append(("0." + digs + "e-320").encode())
        out.append((digs + "e-%d" % (nd - 310)).encode())                  # overflows: infinity error
        out.append((digs + "e-%d" % (nd + 300)).encode())                  # tiny normal
        out.append((digs + "e-%d" % (nd - 20)).encode())                   # ~1e20, dp > 0: right shifts with a full buffer
        out.append(("9007199254740993" + "0" * (nd - 17) + "1e-%d" % (nd - 16)).encode())   # just above the tie 2^53+1
        out.append(("9007199254740992." + "9" * (nd - 16)).encode())                        # just below 2^53+1
        out.append(("4.9406564584124654" + digs[: nd - 17] + "e-324").encode())             # around the smallest subnormal
        out.append(("-" + digs).encode())                                  # long integer
        out.append(("0." + "0" * 40 + digs).encode())
    return out
