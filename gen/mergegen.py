"""generators for ParseSchema / UpdateLazy pairs: duplicate-free JSON texts built from python values"""
KEYS = [b"a", b"b", b"c", b"d", b"e", b"k", b"key", b"x y", b"", b"k" * 17, b"k" * 33]
ESC_SPELL = {b"a": [b"\\u0061", b"a"], b"b": [b"\\u0062", b"b"], b"x y": [b"x\\u0020y", b"x y"], b"k": [b"\\u006b", b"k"]}
EXTRA_KEYS = [b"a\\nb", b"q\\\"r", b"t\\\\u", b"\\u00e9", b"\\ud83d\\ude00", b"s\\/l"]
LONG_KEYS = [b"abcdefghijklmnopqrstuvwxyz_0123456789_member", b"L" * 33, b"long key with spaces and more than 32 bytes"]
for _k in LONG_KEYS:
    ESC_SPELL[_k] = [_k, b"\\u%04x" % _k[0] + _k[1:], _k[:5] + b"\\u%04x" % _k[5] + _k[6:], _k[:-1] + b"\\u%04x" % _k[-1]]
KEYS += LONG_KEYS


def gen(rng, depth=0, maxdepth=4, kinds=None):
    """python value: None/True/False/int/float-text/('s',bytes raw json body)/list/dict-as-list-of-pairs"""
    r = rng.random()
    if depth >= maxdepth:
        r *= 0.55
    if r < 0.08:
        return None
    if r < 0.14:
        return rng.choice([True, False])
    if r < 0.28:
        return ("n", rng.choice([b"0", b"1", b"-2", b"1.5", b"1e3", b"18446744073709551615", b"-9223372036854775808", b"0.25", b"1E5", b"2.5E-3", b"6.02E+23", b"-1E+2",
                                  str(rng.randrange(-1000, 1000)).encode()]))
    if r < 0.40:
        return ("s", rng.choice([b"", b"x", b"hello", b"a\\nb", b"]}\\\"{[", b"\\u00e9", b"s" * 33, b","]))
    if r < 0.55:
        return ("a", [gen(rng, depth + 1, maxdepth) for _ in range(rng.choice([0, 0, 1, 2, 3]))])
    n = rng.choice([0, 1, 1, 2, 3, 4, 6])
    keys = rng.sample(KEYS + EXTRA_KEYS, min(n, len(KEYS) + len(EXTRA_KEYS)))
    return ("o", [(k, gen(rng, depth + 1, maxdepth)) for k in keys])


def text(rng, v, ws=0.15):
    # all four JSON whitespace bytes, alone, in runs of every order (the scalar pre-checks look at the first two bytes of a run, the
    # vector bitmap at the rest) and in runs longer than a 64-byte block
    w = lambda: (rng.choice([b" ", b"\n", b"  ", b" " * 70, b"\t", b"\r", b"\r\n", b"  \r\n", b"\n\r\n\r", b" \t\r\n" * rng.choice([1, 2, 20]),
                             bytes(rng.choice(b" \t\n\r") for _ in range(rng.randrange(1, 6)))])
                 if rng.random() < ws else b"")
    if v is None:
        return b"null"
    if v is True:
        return b"true"
    if v is False:
        return b"false"
    if v[0] == "n":
        return v[1]
    if v[0] == "s":
        return b'"' + v[1] + b'"'
    if v[0] == "a":
        return b"[" + b",".join(w() + text(rng, x, ws) + w() for x in v[1]) + (w() if not v[1] else b"") + b"]"
    out = []
    for k, x in v[1]:
        spell = rng.choice(ESC_SPELL.get(k, [k]))
        out.append(w() + b'"' + spell + b'"' + w() + b":" + w() + text(rng, x, ws) + w())
    return b"{" + b",".join(out) + (w() if not out else b"") + b"}"


def derive(rng, v, depth=0):
    """a value related to v: shares some keys at object levels, changes kinds elsewhere (exercises every kind combination)"""
    if isinstance(v, tuple) and v[0] == "o" and rng.random() < 0.8:
        members = []
        for k, x in v[1]:
            r = rng.random()
            if r < 0.25:
                continue                                   # omitted
            if r < 0.65:
                members.append((k, derive(rng, x, depth + 1)))
            else:
                members.append((k, gen(rng, depth + 1)))   # any kind
        used = {k for k, _ in members}
        for _ in range(rng.choice([0, 0, 1, 2])):
            k = rng.choice(KEYS + EXTRA_KEYS)
            if k not in used and k not in {kk for kk, _ in v[1]}:
                used.add(k)
                members.insert(rng.randrange(0, len(members) + 1), (k, gen(rng, depth + 1)))   # undeclared / new key
        rng.shuffle(members) if rng.random() < 0.3 else None
        return ("o", members)
    return gen(rng, depth)


def has_empty_obj(v):
    if isinstance(v, tuple):
        if v[0] == "o":
            return not v[1] or any(has_empty_obj(x) for _, x in v[1])
        if v[0] == "a":
            return any(has_empty_obj(x) for x in v[1])
    return False


def doc(rng, v, ws=0.15):
    """a whole text: the value with (sometimes) whitespace in front of and behind it - the first byte of a text need not be its first token"""
    pad = lambda: rng.choice([b" ", b"\n", b"\t", b"\r\n", b"  ", b" \n\t\r" * 17, b" " * 64]) if rng.random() < 0.25 else b""
    return pad() + text(rng, v, ws) + pad()


def schema_pair(rng):
    """(existing text, update text): object roots sharing keys, with string -> string updates over-represented"""
    e = gen(rng, maxdepth=rng.choice([2, 3, 4]))
    if not (isinstance(e, tuple) and e[0] == "o" and e[1]):
        e = ("o", [(b"a", e), (b"s", ("s", b"old")), (b"k", gen(rng, 1))])

    def strs(v):
        if isinstance(v, tuple) and v[0] == "o":
            return ("o", [(k, strs(x)) for k, x in v[1]])
        if isinstance(v, tuple) and v[0] == "s" and rng.random() < 0.8:
            return ("s", rng.choice([b"n", b"new value", b"N" * 40, b"esc\\n\\u00e9", b""]))
        return derive(rng, v) if rng.random() < 0.5 else v
    t = strs(e)
    return doc(rng, e), doc(rng, t)
