// schema / lazy : see /verif/protocol/merge.md
#pragma once
#include "cmd_parse.h"
#include "common.h"

namespace vmerge {

template <typename Doc>
static void run_schema(const std::vector<std::string>& t, std::string& out) {
  std::string ex;
  if (!unhex(t[2], ex)) {
    out = "bad-op";
    return;
  }
  Doc d;
  d.Parse(ex.data(), ex.size());
  if (d.HasParseError()) {
    out = "bad-input";
    return;
  }
  for (size_t i = 3; i < t.size(); i++) {
    std::string text;
    if (!unhex(t[i], text)) {
      out = "bad-op";
      return;
    }
    char* in = (char*)std::malloc(text.size() ? text.size() : 1);
    memcpy(in, text.data(), text.size());
    d.ParseSchema(in, text.size());
    std::free(in);
    if (i > 3) out += " | ";
    out += "err=" + std::to_string((int)d.GetParseError()) + " tree=";
    vparse::tree(d, out);
  }
}

static void cmd(const std::vector<std::string>& t, std::string& out) {
  if (t[0] == "schema" && t.size() >= 4) {
    if (t[1] == "pool") {
      run_schema<vparse::PoolDoc>(t, out);
    } else if (t[1] == "simple") {
      run_schema<vparse::SimpleDoc>(t, out);
    } else if (t[1] == "track") {
      vh::ledger().reset();
      run_schema<vparse::TrackDoc>(t, out);
      if (out != "bad-op" && out != "bad-input") out += " ledger=" + vh::ledger().report(true);
    } else {
      out = "bad-op";
    }
    return;
  }
  if (t[0] == "lazy" && t.size() == 3) {
    std::string a, b;
    if (!unhex(t[1], a) || !unhex(t[2], b)) {
      out = "bad-op";
      return;
    }
    // exact-size heap copies: over-reads are visible to ASan
    char* pa = (char*)std::malloc(a.size() ? a.size() : 1);
    char* pb = (char*)std::malloc(b.size() ? b.size() : 1);
    memcpy(pa, a.data(), a.size());
    memcpy(pb, b.data(), b.size());
    std::string r = sonic_json::UpdateLazy(sonic_json::StringView(pa, a.size()), sonic_json::StringView(pb, b.size()));
    std::free(pa);
    std::free(pb);
    out = "out=";
    hex_append(out, r.data(), r.size());
    return;
  }
  out = "bad-op";
}

}  // namespace vmerge
