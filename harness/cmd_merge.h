// schema / lazy : see /verif/protocol/merge.md
#pragma once
#include "cmd_parse.h"
#include "common.h"

#include <memory>

namespace vmerge {

template <typename Doc>
static void run_schema(const std::vector<std::string>& t, std::string& out, int copy = 0, int prep = 0) {
  std::string ex;
  if (!unhex(t[2], ex)) {
    out = "bad-op";
    return;
  }
  std::unique_ptr<Doc> dp(new Doc());
  Doc& d = *dp;
  d.Parse(ex.data(), ex.size());
  if (d.HasParseError()) {
    out = "bad-input";
    return;
  }
  if (prep && d.IsObject()) {
    // schema-prep: every object-valued member of the root is emptied through the mutation API so that it is `{}` by VALUE but keeps
    // what an emptied container keeps (children block, capacity, lookup map): prep 1 = RemoveMember one by one, 2 = SetObject +
    // MemberReserve(8), 3 = CreateMap then RemoveMember one by one
    auto& a = d.GetAllocator();
    for (auto m = d.MemberBegin(); m != d.MemberEnd(); ++m) {
      auto& v = m->value;
      if (!v.IsObject()) continue;
      if (prep == 2) {
        v.SetObject();
        v.MemberReserve(8, a);
        continue;
      }
      if (prep == 3) v.CreateMap(a);
      while (v.Size() > 0) {
        std::string k(v.MemberBegin()->name.GetStringView().data(), v.MemberBegin()->name.GetStringView().size());
        v.RemoveMember(sonic_json::StringView(k.data(), k.size()));
      }
    }
  }
  for (size_t i = 3; i < t.size(); i++) {
    std::string text;
    if (!unhex(t[i], text)) {
      out = "bad-op";
      return;
    }
    char* in = (char*)std::malloc(text.size() ? text.size() : 1);
    memcpy(in, text.data(), text.size());
    d.ParseSchema(in, text.size());
    std::free(in);
    if (i > 3) out += " | ";
    out += "err=" + std::to_string((int)d.GetParseError()) + " tree=";
    vparse::tree(d, out);
  }
  if (copy == 2) {
    // schema-swap: the updated document is swapped into a second document, the donor is destroyed (a freeing allocator releases - the
    // tracking allocator poisons - whatever the donor still owns), memory is recycled, and the receiver is read back
    Doc c;
    c.Swap(d);
    dp.reset();
    {
      Doc scratch;
      scratch.Parse(ex.data(), ex.size());
    }
    out += " copy=";
    vparse::tree(c, out);
    return;
  }
  if (copy == 3) {
    // schema-reparse: the same document object is used again: Parse(existing) then ParseSchema(last text) once more, then destroyed;
    // the read-back must equal the result of the first round
    std::string last;
    unhex(t.back(), last);
    d.Parse(ex.data(), ex.size());
    d.ParseSchema(last.data(), last.size());
    out += " copy=";
    vparse::tree(d, out);
    Doc e2;
    e2.Parse(ex.data(), ex.size());
    d = std::move(e2);
    return;
  }
  if (copy) {
    // schema-copy: deep copy (default copyString = false) of the updated document into a second document, destroy the source
    // (with a freeing allocator its buffers are released and, under the tracking allocator, poisoned), re-parse something into a
    // fresh third document to recycle memory, then read the copy back: it must still be the final tree
    Doc c;
    c.CopyFrom(d, c.GetAllocator());
    dp.reset();
    {
      Doc scratch;
      scratch.Parse(ex.data(), ex.size());
    }
    out += " copy=";
    vparse::tree(c, out);
  }
}

// docbuf <op>…: the text buffers of two documents (str_, the schema_str_ chain) under the tracking allocator. The texts are scalars,
// strings and malformed scalars, whose values own no node storage, so the ledger's live-block count after every operation is
// exactly the number of text buffers the two documents hold. Ops: pa:<hex> / pb:<hex> Parse, sa:<hex> / sb:<hex> ParseSchema,
// w = a.Swap(b), mab / mba = move assignment (the moved-from object is then replaced by a fresh document), da / db = destructor
// (then a fresh document). Answer: L<live> per op, then the ledger's problems and the live count after both are destroyed.
static void run_docbuf(const std::vector<std::string>& t, std::string& out) {
  using Doc = vparse::TrackDoc;
  vh::ledger().reset();
  std::unique_ptr<Doc> d[2];
  d[0].reset(new Doc());
  d[1].reset(new Doc());
  for (size_t i = 1; i < t.size(); i++) {
    const std::string& op = t[i];
    if (op == "w") {
      d[0]->Swap(*d[1]);
    } else if (op == "mab" || op == "mba") {
      int dst = op == "mab" ? 0 : 1;
      *d[dst] = std::move(*d[1 - dst]);
      d[1 - dst].reset(new Doc());
    } else if (op == "da" || op == "db") {
      int k = op == "da" ? 0 : 1;
      d[k].reset();
      d[k].reset(new Doc());
    } else if (op.size() >= 3 && (op[0] == 'p' || op[0] == 's') && (op[1] == 'a' || op[1] == 'b') && op[2] == ':') {
      std::string text;
      if (!unhex(op.substr(3).empty() ? "-" : op.substr(3), text)) {
        out = "bad-op";
        return;
      }
      char* in = (char*)std::malloc(text.size() ? text.size() : 1);
      memcpy(in, text.data(), text.size());
      Doc& doc = *d[op[1] == 'a' ? 0 : 1];
      if (op[0] == 'p')
        doc.Parse(in, text.size());
      else
        doc.ParseSchema(in, text.size());
      std::free(in);
      // read the value back: a string root points into one of the buffers
      if (doc.IsString()) {
        volatile size_t sum = 0;
        for (char c : doc.GetStringView()) sum += (unsigned char)c;
      }
    } else {
      out = "bad-op";
      return;
    }
    if (i > 1) out += " ";
    out += "L" + std::to_string(vh::ledger().live_count);
  }
  d[0].reset();
  d[1].reset();
  vh::ledger().check_quarantine();
  out += " faults=" + std::to_string(vh::ledger().problems.size()) + " final=" + std::to_string(vh::ledger().live_count);
  if (!vh::ledger().problems.empty()) out += " problems=" + vh::ledger().report(false);
}

static void cmd(const std::vector<std::string>& t, std::string& out) {
  if (t[0] == "docbuf" && t.size() >= 2) {
    run_docbuf(t, out);
    return;
  }
  if ((t[0] == "schema" || t[0] == "schema-copy" || t[0] == "schema-swap" || t[0] == "schema-reparse" || t[0].compare(0, 11, "schema-prep") == 0) &&
      t.size() >= 4) {
    int copy = t[0] == "schema-copy" ? 1 : t[0] == "schema-swap" ? 2 : t[0] == "schema-reparse" ? 3 : 0;
    int prep = t[0] == "schema-prep1" ? 1 : t[0] == "schema-prep2" ? 2 : t[0] == "schema-prep3" ? 3 : 0;
    if (t[0].compare(0, 11, "schema-prep") == 0 && !prep) {
      out = "bad-op";
      return;
    }
    if (t[1] == "pool") {
      run_schema<vparse::PoolDoc>(t, out, copy, prep);
    } else if (t[1] == "simple") {
      run_schema<vparse::SimpleDoc>(t, out, copy, prep);
    } else if (t[1] == "track") {
      vh::ledger().reset();
      run_schema<vparse::TrackDoc>(t, out, copy, prep);
      if (out != "bad-op" && out != "bad-input") out += " ledger=" + vh::ledger().report(true);
    } else {
      out = "bad-op";
    }
    return;
  }
  if (t[0] == "lazy" && t.size() == 3) {
    std::string a, b;
    if (!unhex(t[1], a) || !unhex(t[2], b)) {
      out = "bad-op";
      return;
    }
    // exact-size heap copies: over-reads are visible to ASan
    char* pa = (char*)std::malloc(a.size() ? a.size() : 1);
    char* pb = (char*)std::malloc(b.size() ? b.size() : 1);
    memcpy(pa, a.data(), a.size());
    memcpy(pb, b.data(), b.size());
    std::string r = sonic_json::UpdateLazy(sonic_json::StringView(pa, a.size()), sonic_json::StringView(pb, b.size()));
    std::free(pa);
    std::free(pb);
    out = "out=";
    hex_append(out, r.data(), r.size());
    return;
  }
  out = "bad-op";
}

}  // namespace vmerge
