// atof / prim-el / prim-nf / prim-native / prim-str2int : see /verif/protocol/number.md
#pragma once
#include "cmd_parse.h"
#include "common.h"

namespace vnum {

static std::string show_root(const std::string& text) {
  sonic_json::Document d;
  char* in = (char*)std::malloc(text.size() ? text.size() : 1);
  memcpy(in, text.data(), text.size());
  d.Parse(in, text.size());
  std::free(in);
  std::string r;
  if (d.HasParseError()) return "err" + std::to_string((int)d.GetParseError()) + "@" + std::to_string(d.GetErrorOffset());
  if (!d.IsNumber()) return "na";
  vparse::tree(d, r);
  return r;
}

static std::string show_arr(const std::string& text) {
  std::string t = "[" + text + "]";
  sonic_json::Document d;
  char* in = (char*)std::malloc(t.size());
  memcpy(in, t.data(), t.size());
  d.Parse(in, t.size());
  std::free(in);
  std::string r;
  if (d.HasParseError()) return "err" + std::to_string((int)d.GetParseError()) + "@" + std::to_string(d.GetErrorOffset());
  if (!d.IsArray()) return "na";
  if (d.Size() == 0) return "empty";
  if (!d[0].IsNumber()) return "na";
  vparse::tree(d[0], r);
  return r;
}

static bool parse_i(const std::string& s, long long& v) {
  if (s.empty()) return false;
  char* e;
  v = strtoll(s.c_str(), &e, 10);
  return *e == 0;
}

static void cmd(const std::vector<std::string>& t, std::string& out) {
  if (t[0] == "atof" && t.size() == 2) {
    std::string text;
    if (!unhex(t[1], text)) {
      out = "bad-op";
      return;
    }
    out = show_root(text) + " arr=" + show_arr(text);
    return;
  }
  if ((t[0] == "prim-el" || t[0] == "prim-nf") && t.size() == 4) {
    uint64_t man;
    long long e, neg;
    if (!parse_u64(t[1], man) || !parse_i(t[2], e) || !parse_i(t[3], neg)) {
      out = "bad-op";
      return;
    }
    int sgn = neg ? -1 : 1;
    if (t[0] == "prim-el") {
      double v = 0;
      bool ok = man != 0 && sonic_json::internal::AtofEiselLemire64(man, (int)e, sgn, &v);
      uint64_t b;
      memcpy(&b, &v, 8);
      out = ok ? "ok " + std::to_string(b) : "fail";
    } else {
      uint64_t raw = 0;
      bool ok = man != 0 && e > -307 && e < 288 && sonic_json::internal::ParseFloatingNormalFast(raw, (int)e, man, sgn);
      out = ok ? "ok " + std::to_string(raw) : "fail";
    }
    return;
  }
  if (t[0] == "prim-native" && t.size() == 2) {
    std::string text;
    if (!unhex(t[1], text)) {
      out = "bad-op";
      return;
    }
    std::string padded = text + std::string(64, 'x');
    double v = sonic_json::internal::AtofNative(padded.data(), (int)text.size());
    uint64_t b;
    memcpy(&b, &v, 8);
    out = std::to_string(b);
    return;
  }
  if (t[0] == "prim-str2int" && t.size() == 3) {
    long long n;
    std::string text;
    if (!parse_i(t[1], n) || !unhex(t[2], text)) {
      out = "bad-op";
      return;
    }
    std::string padded = text + std::string(16, 'x');
    int nn = (int)n;
    uint64_t v = sonic_json::internal::simd_str2int(padded.data(), nn);
    out = std::to_string(v) + " " + std::to_string(nn);
    return;
  }
  out = "bad-op";
}

}  // namespace vnum
