// memcmp <offA> <offB> <garbage> <hexA> <hexB>   — see /verif/protocol/memcmp.md
#pragma once
#include "common.h"
#include "guard.h"

static void cmd_memcmp(const std::vector<std::string>& t, std::string& out) {
#if defined(SONIC_STATIC_DISPATCH)
  static Arena A(2), B(2);
  uint64_t offA, offB, g;
  std::string a, b;
  if (t.size() != 6 || !parse_u64(t[1], offA) || !parse_u64(t[2], offB) || !parse_u64(t[3], g) || !unhex(t[4], a) ||
      !unhex(t[5], b) || a.size() != b.size() || offA > 4096 || offB > 4096 || g > 255 || a.size() > 4000) {
    out = "bad-op";
    return;
  }
  size_t n = a.size();
  memset(A.base, (int)g, A.mapped);
  // different filler behind the two operands: a comparison that looks at bytes beyond the length sees a difference
  memset(B.base, (int)(g ^ 0xFF), B.mapped);
  uint8_t* pa = A.end() - offA - n;
  uint8_t* pb = B.end() - offB - n;
  memcpy(pa, a.data(), n);
  memcpy(pb, b.data(), n);
  bool eq = sonic_json::internal::InlinedMemcmpEq(pa, pb, n);
  int c = sonic_json::internal::InlinedMemcmp(pa, pb, n);
  out = std::string("eq=") + (eq ? "1" : "0") + " cmp=" + (c < 0 ? "-1" : c > 0 ? "1" : "0");
#else
  out = "unsupported";
#endif
}
