// pool-* commands: see /verif/protocol/pool.md
#pragma once
#include <memory>

#include "common.h"

namespace vpool {

struct Region {
  uint8_t* base;
  size_t size;
  uint8_t* bufstart;  // start of the chunk's buffer (after the headers)
  int serial;
  bool live;
  bool user;
};

struct LoggingBase {
  static std::vector<Region>& regions() {
    static std::vector<Region> r;
    return r;
  }
  static int& serial() {
    static int s = 0;
    return s;
  }
  static int& frees() {
    static int f = 0;
    return f;
  }
  static bool& next_is_shared() {
    static bool b = false;
    return b;
  }
  void* Malloc(size_t size) {
    if (size == 0) return nullptr;
    uint8_t* p = (uint8_t*)std::malloc(size);
    memset(p, 0xEE, size);
    bool sh = next_is_shared();
    next_is_shared() = false;
    regions().push_back(Region{p, size, p + (sh ? 56 : 24), serial()++, true, false});
    return p;
  }
  void Free(void* p) {
    if (!p) return;
    frees()++;
    for (auto& r : regions())
      if (r.live && r.base == (uint8_t*)p) {
        r.live = false;
        memset(p, 0xDD, r.size);  // poison
        std::free(p);
        return;
      }
    fprintf(stderr, "FOREIGN FREE %p\n", p);
    abort();
  }
  static constexpr bool kNeedFree = true;
};

struct Handle {
  virtual ~Handle() {}
  virtual void* Malloc(size_t) = 0;
  virtual void* Realloc(void*, size_t, size_t) = 0;
  virtual void Clear() = 0;
  virtual size_t Size() = 0;
  virtual size_t Capacity() = 0;
  virtual bool Shared() = 0;
  virtual void* SharedPtr() = 0;
  virtual size_t Refcount() = 0;
  virtual Handle* Copy() = 0;
  virtual Handle* Move() = 0;
  virtual void Assign(Handle*) = 0;
  virtual void MoveAssign(Handle*) = 0;
  virtual bool Moved() = 0;
  virtual bool adaptive() = 0;
};

template <typename Policy, bool Adaptive>
struct HandleT : Handle {
  using A = sonic_json::MemoryPoolAllocator<LoggingBase, Policy>;
  A a;
  HandleT(size_t cap, LoggingBase* b) : a(cap, b) {}
  HandleT(void* buf, size_t size, size_t cap, LoggingBase* b) : a(buf, size, cap, b) {}
  HandleT(const A& o) : a(o) {}
  HandleT(A&& o) : a(std::move(o)) {}
  void* Malloc(size_t n) override { return a.Malloc(n); }
  void* Realloc(void* p, size_t o, size_t n) override { return a.Realloc(p, o, n); }
  void Clear() override { a.Clear(); }
  size_t Size() override { return a.Size(); }
  size_t Capacity() override { return a.Capacity(); }
  bool Shared() override { return a.Shared(); }
  void* SharedPtr() override { return a.shared_; }
  size_t Refcount() override { return a.shared_ ? a.shared_->refcount : 0; }
  Handle* Copy() override { return new HandleT(a); }
  Handle* Move() override { return new HandleT(std::move(a)); }
  void Assign(Handle* o) override { a = static_cast<HandleT*>(o)->a; }
  void MoveAssign(Handle* o) override { a = std::move(static_cast<HandleT*>(o)->a); }
  bool Moved() override { return a.shared_ == nullptr; }
  bool adaptive() override { return Adaptive; }
};
using HSimple = HandleT<sonic_json::SimpleChunkPolicy, false>;
using HAdapt = HandleT<sonic_json::AdaptiveChunkPolicy, true>;

struct Block {
  uint8_t* p;
  size_t req;
  void* pool;
  bool live;
};

struct State {
  LoggingBase base;
  Handle* slot[8] = {nullptr};
  std::vector<Block> blocks;
  std::vector<uint8_t*> userbufs;
  void reset() {
    for (auto& h : slot) {
      delete h;
      h = nullptr;
    }
    for (auto& r : LoggingBase::regions())
      if (r.live && !r.user) {
        fprintf(stderr, "LEAKED REGION serial %d\n", r.serial);
        abort();
      }
    for (auto b : userbufs) std::free(b);
    userbufs.clear();
    LoggingBase::regions().clear();
    LoggingBase::serial() = 0;
    LoggingBase::frees() = 0;
    blocks.clear();
  }
};

static inline uint8_t pat(size_t n, size_t i) { return (uint8_t)((n * 31 + i * 7 + 1) % 251); }

static std::string ptr_str(uint8_t* p) {
  if (!p) return "null";
  for (auto& r : LoggingBase::regions())
    if (r.live && p >= r.base && p <= r.base + r.size) {
      return "c" + std::to_string(r.serial) + "+" + std::to_string((long)(p - r.bufstart));
    }
  return "WILD";
}

static std::string mem_check(State& st) {
  for (size_t n = 0; n < st.blocks.size(); n++) {
    Block& b = st.blocks[n];
    if (!b.live) continue;
    for (size_t i = 0; i < b.req; i++)
      if (b.p[i] != pat(n, i)) return " mem=corrupt:" + std::to_string(n);
  }
  return " mem=ok";
}

static void drop_pool(State& st, void* pool) {
  for (auto& b : st.blocks)
    if (b.pool == pool) b.live = false;
}

static bool num(const std::string& s, size_t& v) {
  uint64_t x;
  if (!parse_u64(s, x) || x >= (1ull << 32)) return false;
  v = (size_t)x;
  return true;
}

static void cmd(State& st, const std::vector<std::string>& t, std::string& out) {
  const std::string& c = t[0];
  auto bad = [&]() { out = "bad-op"; };
  auto slotno = [&](const std::string& s, int& k) {
    size_t v;
    if (!num(s, v) || v >= 8) return false;
    k = (int)v;
    return true;
  };
  auto live = [&](int k) { return st.slot[k] && !st.slot[k]->Moved(); };
  auto sc = [&](Handle* h) { return " size=" + std::to_string(h->Size()) + " cap=" + std::to_string(h->Capacity()); };
  if (c == "pool-reset") {
    st.reset();
    out = "ok";
    return;
  }
  if (c == "pool-new" && t.size() == 4) {
    int k;
    size_t cap;
    if (!slotno(t[1], k) || st.slot[k] || !num(t[3], cap) || (t[2] != "simple" && t[2] != "adaptive")) return bad();
    LoggingBase::next_is_shared() = true;
    st.slot[k] = t[2] == "simple" ? (Handle*)new HSimple(cap, &st.base) : (Handle*)new HAdapt(cap, &st.base);
    out = "ok" + sc(st.slot[k]) + mem_check(st);
    return;
  }
  if (c == "pool-newbuf" && t.size() == 6) {
    int k;
    size_t cap, bufsize, mis;
    if (!slotno(t[1], k) || st.slot[k] || !num(t[3], cap) || !num(t[4], bufsize) || !num(t[5], mis) ||
        (t[2] != "simple" && t[2] != "adaptive"))
      return bad();
    size_t loss = (8 - mis) % 8;
    if (mis >= 8 || bufsize < loss + 56) return bad();
    uint8_t* raw = (uint8_t*)std::malloc(bufsize + 32);
    st.userbufs.push_back(raw);
    uint8_t* al = (uint8_t*)(((uintptr_t)raw + 15) & ~(uintptr_t)15);
    uint8_t* buf = al + mis;
    memset(buf, 0xEE, bufsize);
    uint8_t* aligned = buf + loss;
    LoggingBase::regions().push_back(Region{buf, bufsize, aligned + 56, LoggingBase::serial()++, true, true});
    st.slot[k] = t[2] == "simple" ? (Handle*)new HSimple(buf, bufsize, cap, &st.base)
                                  : (Handle*)new HAdapt(buf, bufsize, cap, &st.base);
    out = "ok" + sc(st.slot[k]) + mem_check(st);
    return;
  }
  if ((c == "pool-copy" || c == "pool-move") && t.size() == 3) {
    int d, s;
    if (!slotno(t[1], d) || !slotno(t[2], s) || st.slot[d] || !live(s)) return bad();
    st.slot[d] = c == "pool-copy" ? st.slot[s]->Copy() : st.slot[s]->Move();
    out = "ok" + mem_check(st);
    return;
  }
  if ((c == "pool-assign" || c == "pool-massign") && t.size() == 3) {
    int d, s;
    if (!slotno(t[1], d) || !slotno(t[2], s) || !st.slot[d] || !live(s)) return bad();
    if (st.slot[d]->adaptive() != st.slot[s]->adaptive()) return bad();
    if (c == "pool-massign" && d == s) return bad();
    // the assigned-to handle may be the last owner of its pool
    void* oldpool = st.slot[d]->SharedPtr();
    bool last = oldpool && st.slot[d]->Refcount() == 1 && oldpool != st.slot[s]->SharedPtr();
    if (c == "pool-assign")
      st.slot[d]->Assign(st.slot[s]);
    else
      st.slot[d]->MoveAssign(st.slot[s]);
    if (last) drop_pool(st, oldpool);
    out = "ok" + mem_check(st);
    return;
  }
  if (c == "pool-destroy" && t.size() == 2) {
    int k;
    if (!slotno(t[1], k) || !st.slot[k]) return bad();
    void* pool = st.slot[k]->SharedPtr();
    bool last = pool && st.slot[k]->Refcount() == 1;
    int f0 = LoggingBase::frees();
    if (last) drop_pool(st, pool);
    delete st.slot[k];
    st.slot[k] = nullptr;
    out = "ok freed=" + std::to_string(LoggingBase::frees() - f0) + mem_check(st);
    return;
  }
  if (c == "pool-malloc" && t.size() == 3) {
    int k;
    size_t n;
    if (!slotno(t[1], k) || !live(k) || !num(t[2], n)) return bad();
    uint8_t* p = (uint8_t*)st.slot[k]->Malloc(n);
    if (p) {
      size_t id = st.blocks.size();
      for (size_t i = 0; i < n; i++) p[i] = pat(id, i);
      st.blocks.push_back(Block{p, n, st.slot[k]->SharedPtr(), true});
    }
    out = ptr_str(p) + sc(st.slot[k]) + mem_check(st);
    return;
  }
  if (c == "pool-realloc" && t.size() == 5) {
    int k;
    size_t o, n;
    if (!slotno(t[1], k) || !live(k) || !num(t[3], o) || !num(t[4], n)) return bad();
    uint8_t* orig = nullptr;
    size_t bi = 0;
    if (t[2] != "null") {
      if (!num(t[2], bi) || bi >= st.blocks.size() || !st.blocks[bi].live || st.blocks[bi].req != o) return bad();
      orig = st.blocks[bi].p;
    }
    uint8_t* p = (uint8_t*)st.slot[k]->Realloc(orig, o, n);
    std::string extra;
    if (p && p == orig) {
      extra = " same";
      if (n > o) {
        for (size_t i = o; i < n; i++) p[i] = pat(bi, i);
        st.blocks[bi].req = n;
      }
    } else if (p) {
      if (orig) {
        size_t m = o < n ? o : n;
        extra = memcmp(p, orig, m) == 0 ? " copy=ok" : " copy=bad";
      }
      size_t id = st.blocks.size();
      for (size_t i = 0; i < n; i++) p[i] = pat(id, i);
      st.blocks.push_back(Block{p, n, st.slot[k]->SharedPtr(), true});
    }
    out = ptr_str(p) + sc(st.slot[k]) + extra + mem_check(st);
    return;
  }
  if (c == "pool-clear" && t.size() == 2) {
    int k;
    if (!slotno(t[1], k) || !live(k)) return bad();
    int f0 = LoggingBase::frees();
    drop_pool(st, st.slot[k]->SharedPtr());
    st.slot[k]->Clear();
    out = "ok freed=" + std::to_string(LoggingBase::frees() - f0) + sc(st.slot[k]) + mem_check(st);
    return;
  }
  if (c == "pool-stat" && t.size() == 2) {
    int k;
    if (!slotno(t[1], k) || !live(k)) return bad();
    out = sc(st.slot[k]).substr(1) + " shared=" + (st.slot[k]->Shared() ? "1" : "0") + mem_check(st);
    return;
  }
  bad();
}

}  // namespace vpool
