// parsestr <pad> <hex>   — see /verif/protocol/strdec.md
#pragma once
#include "common.h"

static void cmd_parsestr(const std::vector<std::string>& t, std::string& out) {
  uint64_t pad;
  std::string s;
  if (t.size() != 3 || !parse_u64(t[1], pad) || pad > 255 || !unhex(t[2], s)) {
    out = "bad-op";
    return;
  }
  size_t len = s.size();
  uint8_t* buf = (uint8_t*)std::malloc(len + 64);
  memcpy(buf, s.data(), len);
  buf[len] = 'x';
  buf[len + 1] = '"';
  buf[len + 2] = 'x';
  memset(buf + len + 3, (int)pad, 61);
  uint8_t* src = buf;
  sonic_json::SonicError err = sonic_json::kErrorNone;
  size_t n = sonic_json::internal::parseStringInplace(src, err);
  if (err) {
    out = "err=" + std::to_string((int)err);
  } else {
    out = "ok n=" + std::to_string(n) + " next=" + std::to_string((size_t)(src - buf)) + " buf=";
    hex_append(out, buf, len + 3);
  }
  std::free(buf);
}
