// Allocators supplied by the harness as template arguments of DNode / GenericDocument.
//  TrackingAllocator: freeing allocator with a ledger (serial, size, liveness); detects foreign free and double
//                     free, poisons freed blocks and keeps them in quarantine so a later use shows as corruption.
//  GuardAllocator:    freeing allocator whose blocks end exactly at a PROT_NONE page (over-read/over-write of
//                     any block traps even in the production build); freed blocks are unmapped (use-after-free traps).
#pragma once
#include <sys/mman.h>

#include <cstdint>
#include <cstdlib>
#include <cstring>
#include <map>
#include <string>
#include <vector>

namespace vh {

struct Ledger {
  struct Blk {
    size_t size;
    int serial;
    bool live;
  };
  std::map<void*, Blk> blocks;       // every block ever handed out in this epoch (freed ones stay: quarantine)
  std::vector<std::string> problems;
  int serial = 0;
  size_t live_count = 0, live_bytes = 0, mallocs = 0, frees = 0;
  std::vector<size_t> alloc_sizes;   // sizes in allocation order (L2)

  void reset() {
    for (auto& kv : blocks) std::free(kv.first);
    blocks.clear();
    problems.clear();
    serial = 0;
    live_count = live_bytes = mallocs = frees = 0;
    alloc_sizes.clear();
  }
  void* alloc(size_t n) {
    if (n == 0) return nullptr;
    void* p = std::malloc(n);
    memset(p, 0x0C, n);  // worst case for a stale node: looks like kStringFree
    blocks[p] = Blk{n, serial++, true};
    live_count++;
    live_bytes += n;
    mallocs++;
    alloc_sizes.push_back(n);
    return p;
  }
  void release(void* p) {
    if (!p) return;
    auto it = blocks.find(p);
    if (it == blocks.end()) {
      problems.push_back("foreign-free");
      return;
    }
    if (!it->second.live) {
      problems.push_back("double-free#" + std::to_string(it->second.serial));
      return;
    }
    it->second.live = false;
    live_count--;
    live_bytes -= it->second.size;
    frees++;
    memset(p, 0xDD, it->second.size);  // poison; kept in quarantine until reset()
  }
  // freed blocks must still be fully poisoned
  void check_quarantine() {
    for (auto& kv : blocks)
      if (!kv.second.live) {
        const uint8_t* b = (const uint8_t*)kv.first;
        for (size_t i = 0; i < kv.second.size; i++)
          if (b[i] != 0xDD) {
            problems.push_back("write-after-free#" + std::to_string(kv.second.serial));
            break;
          }
      }
  }
  std::string report(bool expect_empty) {
    check_quarantine();
    std::string r;
    for (auto& p : problems) r += (r.empty() ? "" : ",") + p;
    if (expect_empty && live_count) r += (r.empty() ? "" : ",") + std::string("leak:") + std::to_string(live_count) + "blk/" + std::to_string(live_bytes) + "B";
    return r.empty() ? "ok" : r;
  }
};

inline Ledger& ledger() {
  static Ledger l;
  return l;
}

class TrackingAllocator {
 public:
  void* Malloc(size_t size) { return ledger().alloc(size); }
  void* Realloc(void* old_ptr, size_t old_size, size_t new_size) {
    if (new_size == 0) {
      Free(old_ptr);
      return nullptr;
    }
    void* n = ledger().alloc(new_size);
    if (old_ptr) {
      auto it = ledger().blocks.find(old_ptr);
      size_t have = it != ledger().blocks.end() ? it->second.size : old_size;
      memcpy(n, old_ptr, have < new_size ? have : new_size);
      Free(old_ptr);
    }
    return n;
  }
  static void Free(void* ptr) { ledger().release(ptr); }
  bool operator==(const TrackingAllocator&) const { return true; }
  bool operator!=(const TrackingAllocator&) const { return false; }
  static constexpr bool kNeedFree = true;
};

class GuardAllocator {
  struct Hdr {
    void* map;
    size_t maplen;
    size_t size;
  };
  static std::map<void*, Hdr>& tab() {
    static std::map<void*, Hdr> t;
    return t;
  }

 public:
  void* Malloc(size_t size) {
    if (size == 0) return nullptr;
    size_t pages = (size + 4095) / 4096;
    size_t maplen = pages * 4096 + 4096;
    void* m = mmap(nullptr, maplen, PROT_READ | PROT_WRITE, MAP_PRIVATE | MAP_ANONYMOUS, -1, 0);
    if (m == MAP_FAILED) abort();
    mprotect((uint8_t*)m + pages * 4096, 4096, PROT_NONE);
    // blocks must stay 8-byte aligned for the node layout: align the END down to 8 only when size % 8 == 0,
    // otherwise keep the last byte on the page edge (strings) - nodes are always allocated in multiples of 8.
    uint8_t* p = (uint8_t*)m + pages * 4096 - size;
    memset(m, 0x0C, pages * 4096);
    tab()[p] = Hdr{m, maplen, size};
    return p;
  }
  void* Realloc(void* old_ptr, size_t old_size, size_t new_size) {
    if (new_size == 0) {
      Free(old_ptr);
      return nullptr;
    }
    void* n = Malloc(new_size);
    if (old_ptr) {
      auto it = tab().find(old_ptr);
      size_t have = it != tab().end() ? it->second.size : old_size;
      memcpy(n, old_ptr, have < new_size ? have : new_size);
      Free(old_ptr);
    }
    return n;
  }
  static void Free(void* ptr) {
    if (!ptr) return;
    auto it = tab().find(ptr);
    if (it == tab().end()) abort();  // foreign / double free
    munmap(it->second.map, it->second.maplen);
    tab().erase(it);
  }
  static size_t live() { return tab().size(); }
  bool operator==(const GuardAllocator&) const { return true; }
  bool operator!=(const GuardAllocator&) const { return false; }
  static constexpr bool kNeedFree = true;
};

}  // namespace vh
