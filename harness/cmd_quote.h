// quote <off> <garbage> <hex>   — see /verif/protocol/quote.md
#pragma once
#include "common.h"
#include "guard.h"

static void cmd_quote(const std::vector<std::string>& t, std::string& out) {
  static Arena S(2);
  uint64_t off, g;
  std::string s;
  if (t.size() != 4 || !parse_u64(t[1], off) || !parse_u64(t[2], g) || !unhex(t[3], s) || off > 4096 || g > 255 ||
      s.size() > 4000) {
    out = "bad-op";
    return;
  }
  size_t n = s.size();
  memset(S.base, (int)g, S.mapped);
  uint8_t* src = S.end() - off - n;
  memcpy(src, s.data(), n);
  size_t cap = 6 * n + 32 + 3;
  std::string res[2];
  size_t ext = 0;
  for (int run = 0; run < 2; run++) {
    GuardBlock d(cap);
    uint8_t fill = run == 0 ? 0xAA : 0x55;
    memset(d.p, fill, cap);
    char* e = sonic_json::internal::Quote((const char*)src, n, (char*)d.p);
    res[run].assign((char*)d.p, (size_t)(e - (char*)d.p));
    for (size_t i = 0; i < cap; i++)
      if (d.p[i] != fill && i + 1 > ext) ext = i + 1;
  }
  hex_append(out, res[0].data(), res[0].size());
  out += " ext=" + std::to_string(ext);
  if (res[0] != res[1]) out += " NONDET";
}
