// ondemand <place> <hex json> <step>... | pod <hex json> <step>...   — see /verif/protocol/ondemand.md
#pragma once
#include "cmd_parse.h"
#include "common.h"
#include "guard.h"

namespace vod {

static bool build_path(const std::vector<std::string>& t, size_t from, sonic_json::GenericJsonPointer<std::string>& path) {
  for (size_t i = from; i < t.size(); i++) {
    const std::string& s = t[i];
    if (s.size() < 2) return false;
    if (s[0] == 'k') {
      std::string k;
      if (!unhex(s.substr(1), k)) return false;
      path.emplace_back(sonic_json::GenericJsonPointerNode<std::string>(k));
    } else if (s[0] == 'n') {
      char* e;
      long v = strtol(s.c_str() + 1, &e, 10);
      if (*e) return false;
      path.emplace_back(sonic_json::GenericJsonPointerNode<std::string>((int)v));
    } else {
      return false;
    }
  }
  return true;
}

static void cmd(const std::vector<std::string>& t, std::string& out) {
  if (t[0] == "ondemand" && t.size() >= 3) {
    std::string json;
    sonic_json::GenericJsonPointer<std::string> path;
    if (!unhex(t[2], json) || !build_path(t, 3, path) || (t[1] != "heap" && t[1] != "page")) {
      out = "bad-op";
      return;
    }
    size_t len = json.size();
    char* data;
    char* heap = nullptr;
    GuardBlock* gb = nullptr;
    if (t[1] == "heap") {
      heap = (char*)std::malloc(len ? len : 1);  // exact size (len 0: 1-byte block, data still has length 0)
      data = heap;
      if (len == 0) {
        // a zero-length range at the very end of a block: any read is an overflow
        data = heap + 1;
      }
    } else {
      gb = new GuardBlock(len);
      data = (char*)gb->p;
    }
    memcpy(data, json.data(), len);
    sonic_json::StringView target("sentinel-not-cleared");
    auto r = sonic_json::GetOnDemand(sonic_json::StringView(data, len), path, target);
    if (r.Error() == sonic_json::kErrorNone) {
      const char* b = target.data();
      bool inside = b >= data && b + target.size() <= data + len;
      out = std::string("ok ") + (inside ? "" : "OUTSIDE ") + "start=" + std::to_string((size_t)(b - data)) +
            " end=" + std::to_string((size_t)(b - data) + target.size()) + " off=" + std::to_string(r.Offset());
    } else {
      out = "err=" + std::to_string((int)r.Error()) + " off=" + std::to_string(r.Offset()) + " tsize=" + std::to_string(target.size());
    }
    std::free(heap);
    delete gb;
    return;
  }
  if (t[0] == "pod" && t.size() >= 2) {
    std::string json;
    sonic_json::GenericJsonPointer<std::string> path;
    if (!unhex(t[1], json) || !build_path(t, 2, path)) {
      out = "bad-op";
      return;
    }
    char* in = (char*)std::malloc(json.size() ? json.size() : 1);
    memcpy(in, json.data(), json.size());
    sonic_json::Document d;
    d.ParseOnDemand(in, json.size(), path);
    std::free(in);
    if (d.HasParseError()) {
      out = "err=" + std::to_string((int)d.GetParseError());
    } else {
      out = "ok tree=";
      vparse::tree(d, out);
    }
    return;
  }
  out = "bad-op";
}

}  // namespace vod
