// guard-page arenas: N mapped pages followed by one PROT_NONE page
#pragma once
#include <sys/mman.h>

#include <cstdint>
#include <cstdio>
#include <cstdlib>

struct Arena {
  uint8_t* base = nullptr;
  size_t mapped = 0;
  explicit Arena(size_t pages = 2) {
    mapped = pages * 4096;
    void* p = mmap(nullptr, mapped + 4096, PROT_READ | PROT_WRITE, MAP_PRIVATE | MAP_ANONYMOUS, -1, 0);
    if (p == MAP_FAILED) {
      perror("mmap");
      abort();
    }
    base = (uint8_t*)p;
    if (mprotect(base + mapped, 4096, PROT_NONE) != 0) {
      perror("mprotect");
      abort();
    }
  }
  uint8_t* end() const { return base + mapped; }
};

// a block of exactly n bytes whose last byte is the last mapped byte (n may be 0)
struct GuardBlock {
  uint8_t* map = nullptr;
  size_t maplen = 0;
  uint8_t* p = nullptr;
  explicit GuardBlock(size_t n) {
    size_t pages = (n + 4095) / 4096 + 1;
    maplen = pages * 4096 + 4096;
    void* m = mmap(nullptr, maplen, PROT_READ | PROT_WRITE, MAP_PRIVATE | MAP_ANONYMOUS, -1, 0);
    if (m == MAP_FAILED) {
      perror("mmap");
      abort();
    }
    map = (uint8_t*)m;
    mprotect(map + maplen - 4096, 4096, PROT_NONE);
    p = map + maplen - 4096 - n;
  }
  ~GuardBlock() { munmap(map, maplen); }
  GuardBlock(const GuardBlock&) = delete;
};
