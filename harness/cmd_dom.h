// dom-* commands : see /verif/protocol/dom.md (and serialize.md for dom-dump / dom-dumpwb)
#pragma once
#include <deque>
#include <memory>

#include "cmd_parse.h"
#include "common.h"
#include "guard.h"

namespace vdom {

struct ISession {
  virtual ~ISession() {}
  virtual void cmd(const std::vector<std::string>& t, std::string& out) = 0;
};

template <typename Doc>
struct Session : ISession {
  using Node = typename Doc::NodeType;
  using Alloc = typename Doc::Allocator;
  static constexpr bool kPool = !Alloc::kNeedFree;
  std::unique_ptr<Doc> d[4];
  std::deque<std::string> keep;  // bytes of constant strings / uncopied keys stay alive for the whole case

  Session() {
    for (auto& x : d) x.reset(new Doc());
  }

  // ---- path resolution (positional; independent of the lookup code under test)
  Node* resolve(int di, const std::string& path) {
    if (di < 0 || di > 3 || path.empty() || path[0] != '/') return nullptr;
    Node* n = d[di].get();
    size_t i = 1;
    while (i < path.size()) {
      char kind = path[i++];
      size_t j = i;
      while (j < path.size() && path[j] != '/') j++;
      uint64_t idx;
      if (!parse_u64(path.substr(i, j - i), idx)) return nullptr;
      if (kind == 'i') {
        if (!n->IsArray() || idx >= n->Size()) return nullptr;
        n = n->Begin() + idx;
      } else if (kind == 'm') {
        if (!n->IsObject() || idx >= n->Size()) return nullptr;
        n = &((n->MemberBegin() + idx)->value);
      } else {
        return nullptr;
      }
      i = j + 1;
    }
    return n;
  }
  static bool is_prefix(const std::string& a, const std::string& b) {  // a is an ancestor-or-self path of b
    if (a == "/") return true;
    return b.compare(0, a.size(), a) == 0 && (b.size() == a.size() || b[a.size()] == '/');
  }

  bool make(const std::string& v, Node& n, Alloc& a) {
    if (v == "null") {
      n.SetNull();
    } else if (v == "true") {
      n.SetBool(true);
    } else if (v == "false") {
      n.SetBool(false);
    } else if (v == "arr") {
      n.SetArray();
    } else if (v == "obj") {
      n.SetObject();
    } else if (v[0] == 'u') {
      uint64_t x;
      if (!parse_u64(v.substr(1), x)) return false;
      n.SetUint64(x);
    } else if (v[0] == 'i') {
      char* e;
      errno = 0;
      long long x = strtoll(v.c_str() + 1, &e, 10);
      if (*e || errno) return false;
      n.SetInt64((int64_t)x);
    } else if (v[0] == 'd') {
      uint64_t b;
      if (!parse_u64(v.substr(1), b)) return false;
      double f;
      memcpy(&f, &b, 8);
      n.SetDouble(f);
    } else if (v[0] == 's') {
      std::string s;
      if (!unhex(v.substr(1), s)) return false;
      n.SetString(s.data(), s.size(), a);
    } else if (v[0] == 'c') {
      std::string s;
      if (!unhex(v.substr(1), s)) return false;
      keep.push_back(s);
      n.SetString(keep.back().data(), keep.back().size());
    } else {
      return false;
    }
    return true;
  }

  std::string doc(int di) {
    std::string r;
    vparse::tree(*d[di], r);
    return r;
  }

  void dump(Node* n, size_t cap0, size_t nreuse, std::string& out) {
    sonic_json::WriteBuffer wb(cap0);
    sonic_json::SonicError err = sonic_json::kErrorNone;
    for (size_t k = 0; k <= nreuse; k++) err = n->Serialize(wb);
    std::string text(err ? "" : std::string(wb.ToString(), wb.Size()));
    out = "err=" + std::to_string((int)err) + " dump=";
    hex_append(out, text.data(), text.size());
    out += " size=" + std::to_string(wb.Size()) + " cap=" + std::to_string(wb.Capacity());
    bool rt = false, again = false;
    std::string dumped = n->Dump();
    bool str = dumped == text && (err || wb.ToString()[wb.Size()] == '\0');
    if (!err) {
      sonic_json::Document re;
      re.Parse(text.data(), text.size());
      if (!re.HasParseError()) {
        rt = (re == *n) && (*n == re);
        sonic_json::WriteBuffer wb2;
        if (re.Serialize(wb2) == sonic_json::kErrorNone) again = std::string(wb2.ToString(), wb2.Size()) == text;
      }
    }
    out += std::string(" rt=") + (rt ? "1" : "0") + " again=" + (again ? "1" : "0") + " str=" + (str ? "1" : "0");
  }

  void cmd(const std::vector<std::string>& t, std::string& out) override {
    const std::string& c = t[0];
    auto bad = [&]() { out = "bad-op"; };
    auto dn = [&](const std::string& s, int& k) {
      uint64_t v;
      if (!parse_u64(s, v) || v > 3) return false;
      k = (int)v;
      return true;
    };
    int a, b;
    if (c == "dom-parse" && t.size() == 3) {
      std::string text;
      if (!dn(t[1], a) || !unhex(t[2], text)) return bad();
      d[a]->Parse(text.data(), text.size());
      out = d[a]->HasParseError() ? "err=" + std::to_string((int)d[a]->GetParseError()) + " doc=" + doc(a) : "ok doc=" + doc(a);
      return;
    }
    if (c == "dom-docmove" && t.size() == 3) {
      if (!dn(t[1], a) || !dn(t[2], b) || a == b) return bad();
      *d[a] = std::move(*d[b]);
      d[b].reset(new Doc());
      out = "ok doc=" + doc(a) + " doc2=" + doc(b);
      return;
    }
    if (c == "dom-docswap" && t.size() == 3) {
      if (!dn(t[1], a) || !dn(t[2], b)) return bad();
      d[a]->Swap(*d[b]);
      out = "ok doc=" + doc(a) + " doc2=" + doc(b);
      return;
    }
    if (t.size() < 3 || !dn(t[1], a)) return bad();
    Node* n = resolve(a, t[2]);
    if (!n) return bad();
    Alloc& al = d[a]->GetAllocator();
    if (c == "dom-set" && t.size() == 4) {
      // validate the literal first (a bad literal must not modify the node)
      Node tmp;
      if (!make(t[3], tmp, al)) return bad();
      *n = std::move(tmp);
      out = "ok doc=" + doc(a);
    } else if (c == "dom-add" && t.size() == 6) {
      std::string key;
      if (!n->IsObject() || !unhex(t[3], key) || (t[5] != "0" && t[5] != "1")) return bad();
      Node v;
      if (!make(t[4], v, al)) return bad();
      size_t idx;
      if (t[5] == "1") {
        idx = n->AddMember(sonic_json::StringView(key.data(), key.size()), std::move(v), al, true) - n->MemberBegin();
      } else {
        keep.push_back(key);
        idx = n->AddMember(sonic_json::StringView(keep.back().data(), keep.back().size()), std::move(v), al, false) - n->MemberBegin();
      }
      out = "ok idx=" + std::to_string(idx) + " doc=" + doc(a);
    } else if (c == "dom-remove" && t.size() == 4) {
      std::string key;
      if (!n->IsObject() || !unhex(t[3], key)) return bad();
      bool r = n->RemoveMember(sonic_json::StringView(key.data(), key.size()));
      out = std::string("r=") + (r ? "1" : "0") + " doc=" + doc(a);
    } else if (c == "dom-erasemem" && t.size() == 5) {
      uint64_t f, l;
      if (!n->IsObject() || !parse_u64(t[3], f) || !parse_u64(t[4], l) || f > l || l > n->Size()) return bad();
      auto it = n->EraseMember(n->MemberBegin() + f, n->MemberBegin() + l);
      out = "ok ret=" + std::to_string((size_t)(it - n->MemberBegin())) + " doc=" + doc(a);
    } else if (c == "dom-mreserve" && t.size() == 4) {
      uint64_t k;
      if (!n->IsObject() || !parse_u64(t[3], k) || k > 100000) return bad();
      n->MemberReserve(k, al);
      out = "ok doc=" + doc(a);
    } else if (c == "dom-createmap" && t.size() == 3) {
      if (!n->IsObject()) return bad();
      n->CreateMap(al);
      out = "ok doc=" + doc(a);
    } else if (c == "dom-destroymap" && t.size() == 3) {
      if (!n->IsObject()) return bad();
      n->DestroyMap();
      out = "ok doc=" + doc(a);
    } else if (c == "dom-push" && t.size() == 4) {
      if (!n->IsArray()) return bad();
      Node v;
      if (!make(t[3], v, al)) return bad();
      n->PushBack(std::move(v), al);
      out = "ok doc=" + doc(a);
    } else if (c == "dom-pop" && t.size() == 3) {
      if (!n->IsArray() || n->Empty()) return bad();
      n->PopBack();
      out = "ok doc=" + doc(a);
    } else if (c == "dom-erase" && t.size() == 5) {
      uint64_t f, l;
      if (!n->IsArray() || !parse_u64(t[3], f) || !parse_u64(t[4], l) || f > l || l > n->Size()) return bad();
      size_t ret = 0;
      if (n->Size() == 0) {
        // Begin() is null on an array without storage: Erase(0,0) is the only possible call; skip the arithmetic on null
        ret = 0;
      } else {
        auto it = n->Erase((size_t)f, (size_t)l);
        ret = (size_t)(it - n->Begin());
      }
      out = "ok ret=" + std::to_string(ret) + " doc=" + doc(a);
    } else if (c == "dom-reserve" && t.size() == 4) {
      uint64_t k;
      if (!n->IsArray() || !parse_u64(t[3], k) || k > 100000) return bad();
      n->Reserve(k, al);
      out = "ok doc=" + doc(a);
    } else if (c == "dom-clear" && t.size() == 3) {
      if (!n->IsContainer()) return bad();
      n->Clear();
      out = "ok doc=" + doc(a);
    } else if ((c == "dom-move" || c == "dom-swap" || c == "dom-copy") && t.size() >= 5) {
      if (!dn(t[3], b)) return bad();
      Node* s = resolve(b, t[4]);
      if (!s) return bad();
      bool same = a == b;
      if (c == "dom-move") {
        if (t.size() != 5) return bad();
        if (!same && kPool) return bad();
        if (same && is_prefix(t[4], t[2]) && t[4] != t[2]) return bad();  // src strict ancestor of dst
        *n = std::move(*s);
      } else if (c == "dom-swap") {
        if (t.size() != 5) return bad();
        if (!same && kPool) return bad();
        if (same && t[2] != t[4] && (is_prefix(t[2], t[4]) || is_prefix(t[4], t[2]))) return bad();
        n->Swap(*s);
      } else {
        if (t.size() != 6 || (t[5] != "0" && t[5] != "1")) return bad();
        // aliasing precondition: src must not be dst, inside dst (destroyed first), nor contain dst
        // (the copy constructor would read the half-constructed destination)
        if (same && (is_prefix(t[2], t[4]) || is_prefix(t[4], t[2]))) return bad();
        n->CopyFrom(*s, al, t[5] == "1");
      }
      out = "ok doc=" + doc(a) + " doc2=" + doc(b);
    } else if (c == "dom-find" && t.size() == 4) {
      std::string key;
      if (!n->IsObject() || !unhex(t[3], key)) return bad();
      const Node* cn = n;
      // the lookup key is handed over as exactly key.size() bytes that end at a PROT_NONE page: no terminator, nothing readable
      // behind it (for the empty key the pointer itself is the first unmapped byte) - a lookup may only look at [key, key+len)
      GuardBlock kb(key.size());
      memcpy(kb.p, key.data(), key.size());
      const char* kp = reinterpret_cast<const char*>(kb.p);
      auto sv = cn->FindMember(sonic_json::StringView(kp, key.size()));
      auto pl = cn->FindMember(kp, key.size());
      bool has = cn->HasMember(sonic_json::StringView(kp, key.size()));
      const Node& at = (*cn)[sonic_json::StringView(kp, key.size())];
      out = "sv=" + (sv == cn->MemberEnd() ? std::string("none") : std::to_string((size_t)(sv - cn->MemberBegin()))) +
            " pl=" + (pl == cn->MemberEnd() ? std::string("none") : std::to_string((size_t)(pl - cn->MemberBegin()))) +
            " has=" + (has ? "1" : "0") + " at=";
      vparse::tree(at, out);
    } else if (c == "dom-at") {
      sonic_json::GenericJsonPointer<std::string> path;
      for (size_t i = 3; i < t.size(); i++) {
        if (t[i].size() < 2) return bad();
        if (t[i][0] == 'k') {
          std::string k;
          if (!unhex(t[i].substr(1), k)) return bad();
          path.emplace_back(sonic_json::GenericJsonPointerNode<std::string>(k));
        } else if (t[i][0] == 'n') {
          char* e;
          long v = strtol(t[i].c_str() + 1, &e, 10);
          if (*e) return bad();
          path.emplace_back(sonic_json::GenericJsonPointerNode<std::string>((int)v));
        } else {
          return bad();
        }
      }
      const Node* r = n->AtPointer(path);
      out = "at=";
      if (r)
        vparse::tree(*r, out);
      else
        out += "none";
    } else if (c == "dom-info" && t.size() == 3) {
      if (n->IsContainer()) {
        out = "size=" + std::to_string(n->Size()) + " empty=" + (n->Empty() ? "1" : "0") + " cap=" + std::to_string(n->Capacity()) +
              " map=" + (n->IsObject() && n->getMap() ? "1" : "0");
        if (n->IsArray() && !n->Empty()) {
          out += " back=";
          vparse::tree(n->Back(), out);
        }
      } else if (n->IsString()) {
        out = "size=" + std::to_string(n->Size()) + " empty=" + (n->Empty() ? "1" : "0");
      } else {
        out = "scalar";
      }
    } else if (c == "dom-eq" && t.size() == 5) {
      if (!dn(t[3], b)) return bad();
      Node* s = resolve(b, t[4]);
      if (!s) return bad();
      const Node *x = n, *y = s;
      out = std::string("eq=") + ((*x == *y) ? "1" : "0") + " ne=" + ((*x != *y) ? "1" : "0") + " eqr=" + ((*y == *x) ? "1" : "0") +
            " refl=" + ((*x == *x) ? "1" : "0");
    } else if (c == "dom-dump" && t.size() == 3) {
      dump(n, 256, 0, out);
    } else if (c == "dom-dumpwb" && t.size() == 5) {
      uint64_t cap0, nre;
      if (!parse_u64(t[3], cap0) || !parse_u64(t[4], nre) || cap0 > (1 << 20) || nre > 8) return bad();
      dump(n, cap0, nre, out);
    } else {
      bad();
    }
  }
};

static ISession*& cur() {
  static ISession* s = nullptr;
  return s;
}
static std::string& cur_alloc() {
  static std::string a;
  return a;
}

static void finish(std::string* ledger_out) {
  bool was_track = cur_alloc() == "track";
  delete cur();
  cur() = nullptr;
  if (ledger_out && was_track) *ledger_out = " ledger=" + vh::ledger().report(true);
  cur_alloc().clear();
}

static void cmd(const std::vector<std::string>& t, std::string& out) {
  if (t[0] == "dom-reset") {
    if (t.size() != 2 || (t[1] != "pool" && t[1] != "simple" && t[1] != "track")) {
      out = "bad-op";
      return;
    }
    finish(nullptr);
    out = "ok";
    if (t[1] == "track") {
      vh::ledger().reset();
      cur() = new Session<vparse::TrackDoc>();
    } else if (t[1] == "pool") {
      cur() = new Session<vparse::PoolDoc>();
    } else {
      cur() = new Session<vparse::SimpleDoc>();
    }
    cur_alloc() = t[1];
    return;
  }
  if (t[0] == "dom-end") {
    if (!cur() || t.size() != 1) {
      out = "bad-op";
      return;
    }
    std::string led;
    finish(&led);
    out = "ok" + led;
    return;
  }
  if (!cur()) {
    out = "bad-op";
    return;
  }
  cur()->cmd(t, out);
}

}  // namespace vdom
