// ser <cap0> <nreuse> <hex json> : see /verif/protocol/serialize.md
#pragma once
#include "cmd_parse.h"
#include "common.h"

#include <memory>

#include "guard.h"

// serv: every string VALUE of the parsed document is replaced by a zero-copy view (SetString(ptr, len), no allocator) of the same bytes
// placed so that they end `gap` bytes in front of an unmapped page - the way a caller hands over strings that live in a mapped file
template <typename N>
static void relocate_strings(N& n, size_t gap, std::vector<std::unique_ptr<GuardBlock>>& keep) {
  if (n.IsString()) {
    auto sv = n.GetStringView();
    keep.emplace_back(new GuardBlock(sv.size() + gap));
    memcpy(keep.back()->p, sv.data(), sv.size());
    memset(keep.back()->p + sv.size(), '"', gap);
    n.SetString((const char*)keep.back()->p, sv.size());
  } else if (n.IsArray()) {
    for (auto it = n.Begin(); it != n.End(); ++it) relocate_strings(*it, gap, keep);
  } else if (n.IsObject()) {
    for (auto it = n.MemberBegin(); it != n.MemberEnd(); ++it) relocate_strings(it->value, gap, keep);
  }
}

static void cmd_ser(const std::vector<std::string>& t, std::string& out) {
  uint64_t cap0, nre;
  std::string json;
  bool view = t[0] == "serv";
  if (t.size() != 4 || !parse_u64(t[1], cap0) || !parse_u64(t[2], nre) || !unhex(t[3], json) || cap0 > (1 << 20) || nre > 8) {
    out = "bad-op";
    return;
  }
  sonic_json::Document d;
  d.Parse(json.data(), json.size());
  if (d.HasParseError()) {
    out = "bad-input";
    return;
  }
  std::vector<std::unique_ptr<GuardBlock>> keep;
  if (view) {
    // serv <gap> <nreuse> <hex json>: the first number is the distance of the strings' ends from the unmapped page; fresh buffer
    relocate_strings(d, (size_t)cap0 % 4096, keep);
    cap0 = 256;
  }
  sonic_json::WriteBuffer wb(cap0);
  sonic_json::SonicError err = sonic_json::kErrorNone;
  for (size_t k = 0; k <= nre; k++) err = d.Serialize(wb);
  std::string text(err ? "" : std::string(wb.ToString(), wb.Size()));
  out = "err=" + std::to_string((int)err) + " dump=";
  hex_append(out, text.data(), text.size());
  out += " size=" + std::to_string(wb.Size()) + " cap=" + std::to_string(wb.Capacity());
  bool rt = false, again = false;
  bool str = d.Dump() == text && (err || wb.ToString()[wb.Size()] == '\0');
  if (!err) {
    sonic_json::Document re;
    re.Parse(text.data(), text.size());
    if (!re.HasParseError()) {
      rt = (re == d) && (d == re);
      sonic_json::WriteBuffer wb2;
      if (re.Serialize(wb2) == sonic_json::kErrorNone) again = std::string(wb2.ToString(), wb2.Size()) == text;
    }
  }
  out += std::string(" rt=") + (rt ? "1" : "0") + " again=" + (again ? "1" : "0") + " str=" + (str ? "1" : "0");
}
