// thr-ro / thr-own / thr-pool : see /verif/protocol/threads.md
#pragma once
#include <atomic>
#include <memory>
#include <thread>

#include "cmd_ondemand.h"
#include "cmd_parse.h"
#include "common.h"

namespace vthr {

static uint64_t mix(uint64_t h, uint64_t v) {
  h ^= v + 0x9e3779b97f4a7c15ull + (h << 6) + (h >> 2);
  return h;
}

template <typename N>
static uint64_t walk(const N& n, uint64_t h) {
  if (n.IsNull()) return mix(h, 1);
  if (n.IsBool()) return mix(h, n.GetBool() ? 2 : 3);
  if (n.IsNumber()) {
    if (n.IsUint64()) return mix(h, n.GetUint64());
    if (n.IsInt64()) return mix(h, (uint64_t)n.GetInt64());
    double d = n.GetDouble();
    uint64_t b;
    memcpy(&b, &d, 8);
    return mix(h, b);
  }
  if (n.IsString()) {
    auto sv = n.GetStringView();
    for (size_t i = 0; i < sv.size(); i++) h = mix(h, (uint8_t)sv[i]);
    return mix(h, sv.size());
  }
  if (n.IsArray()) {
    h = mix(h, 100 + n.Size());
    for (auto it = n.Begin(); it != n.End(); ++it) h = walk(*it, h);
    return h;
  }
  if (n.IsObject()) {
    h = mix(h, 200 + n.Size());
    for (auto it = n.MemberBegin(); it != n.MemberEnd(); ++it) {
      h = walk(it->name, h);
      h = walk(it->value, h);
    }
    return h;
  }
  return mix(h, 999);
}

static void cmd(const std::vector<std::string>& t, std::string& out) {
  using namespace sonic_json;
  if (t[0] == "thr-ro" && t.size() >= 5) {
    uint64_t nt, iters;
    std::string json;
    if (!parse_u64(t[1], nt) || !parse_u64(t[2], iters) || !unhex(t[3], json) || nt < 1 || nt > 32 || iters > 100000) {
      out = "bad-op";
      return;
    }
    Document d0;
    d0.Parse(json.data(), json.size());
    if (d0.HasParseError()) {
      out = "bad-input";
      return;
    }
    const Document& doc = d0;
    struct Op {
      int kind;
      std::string key;
      GenericJsonPointer<std::string> path;
    };
    std::vector<Op> ops;
    for (size_t i = 4; i < t.size(); i++) {
      Op op;
      const std::string& s = t[i];
      if (s.compare(0, 5, "find:") == 0) {
        op.kind = 0;
        if (!unhex(s.substr(5), op.key)) { out = "bad-op"; return; }
      } else if (s.compare(0, 4, "idx:") == 0) {
        op.kind = 1;
        if (!unhex(s.substr(4), op.key)) { out = "bad-op"; return; }
      } else if (s.compare(0, 3, "at:") == 0) {
        op.kind = 2;
        std::vector<std::string> steps{"at"};
        std::string cur;
        for (char c : s.substr(3)) {
          if (c == '/') { if (!cur.empty()) steps.push_back(cur); cur.clear(); } else cur.push_back(c);
        }
        if (!cur.empty()) steps.push_back(cur);
        if (!vod::build_path(steps, 1, op.path)) { out = "bad-op"; return; }
      } else if (s == "iter") {
        op.kind = 3;
      } else if (s == "ser") {
        op.kind = 4;
      } else if (s == "eq") {
        op.kind = 5;
      } else {
        out = "bad-op";
        return;
      }
      ops.push_back(op);
    }
    std::vector<uint64_t> sums(nt, 0);
    std::atomic<int> go{0};
    auto work = [&](size_t ti) {
      while (!go.load(std::memory_order_acquire)) {
      }
      uint64_t h = 7;
      WriteBuffer wb;
      for (uint64_t it = 0; it < iters; it++) {
        for (auto& op : ops) {
          switch (op.kind) {
            case 0:
              if (doc.IsObject()) {
                auto m = doc.FindMember(StringView(op.key.data(), op.key.size()));
                auto m2 = doc.FindMember(op.key.data(), op.key.size());
                h = mix(h, m == doc.MemberEnd() ? 0 : 1 + (uint64_t)(m - doc.MemberBegin()));
                h = mix(h, m2 == doc.MemberEnd() ? 0 : 1 + (uint64_t)(m2 - doc.MemberBegin()));
                h = mix(h, doc.HasMember(StringView(op.key.data(), op.key.size())));
              }
              break;
            case 1:
              if (doc.IsObject()) h = walk(doc[StringView(op.key.data(), op.key.size())], h);
              break;
            case 2: {
              const auto* p = doc.AtPointer(op.path);
              h = p ? walk(*p, h) : mix(h, 5);
              break;
            }
            case 3:
              h = walk(doc, h);
              break;
            case 4: {
              auto e = doc.Serialize(wb);
              h = mix(h, (uint64_t)e);
              h = mix(h, wb.Size());
              break;
            }
            case 5:
              h = mix(h, doc == doc);
              break;
          }
        }
      }
      sums[ti] = h;
    };
    std::vector<std::thread> th;
    for (size_t i = 0; i < nt; i++) th.emplace_back(work, i);
    go.store(1, std::memory_order_release);
    for (auto& x : th) x.join();
    bool same = true;
    for (auto s : sums) same = same && s == sums[0];
    out = "ok sums=" + std::to_string(sums[0]) + " same=" + (same ? "1" : "0");
    return;
  }
  if (t[0] == "thr-own" && t.size() == 4) {
    uint64_t nt, iters;
    std::string json;
    if (!parse_u64(t[1], nt) || !parse_u64(t[2], iters) || !unhex(t[3], json) || nt < 1 || nt > 32 || iters > 100000) {
      out = "bad-op";
      return;
    }
    std::vector<std::string> dumps(nt);
    std::atomic<int> go{0};
    auto work = [&](size_t ti) {
      while (!go.load(std::memory_order_acquire)) {
      }
      std::string ondemand_digest;
      for (uint64_t it = 0; it < iters; it++) {
        Document d;
        d.Parse(json.data(), json.size());
        if (d.HasParseError()) {
          // invalid text: the error path is exercised concurrently too; code and offset must agree between threads
          dumps[ti] = "parse-error:" + std::to_string((int)d.GetParseError()) + ":" + std::to_string(d.GetErrorOffset());
          continue;
        }
        auto& a = d.GetAllocator();
        if (d.IsObject() && d.Size() > 0) {
          // on-demand lookup of the last member of this thread's own text (escaped keys go through the key-decoding scratch buffer)
          auto last = d.MemberBegin() + (d.Size() - 1);
          std::string kname(last->name.GetStringView().data(), last->name.GetStringView().size());
          sonic_json::GenericJsonPointer<std::string> jp;
          jp.emplace_back(sonic_json::GenericJsonPointerNode<std::string>(kname));
          sonic_json::StringView tgt;
          auto r = sonic_json::GetOnDemand(sonic_json::StringView(json.data(), json.size()), jp, tgt);
          Document od;
          od.ParseOnDemand(json.data(), json.size(), jp);
          WriteBuffer wo;
          od.Serialize(wo);
          ondemand_digest = std::to_string((int)r.Error()) + ":" + std::to_string(tgt.size()) + ":" + std::string(wo.ToString(), wo.Size());
        }
        if (d.IsObject()) {
          d.AddMember("thr-key", Document::NodeType(uint64_t(it)), a);
          d.CreateMap(a);
          d.AddMember("second", Document::NodeType("str", 3, a), a);
          (void)d.FindMember("thr-key");
          (void)d["missing-key"];
          d.RemoveMember("thr-key");
        } else if (d.IsArray()) {
          d.PushBack(Document::NodeType(true), a);
          d.PushBack(Document::NodeType(1.5), a);
          d.PopBack();
        }
        WriteBuffer wb;
        d.Serialize(wb);
        dumps[ti] = std::string(wb.ToString(), wb.Size()) + " od=" + ondemand_digest;
      }
    };
    std::vector<std::thread> th;
    for (size_t i = 0; i < nt; i++) th.emplace_back(work, i);
    go.store(1, std::memory_order_release);
    for (auto& x : th) x.join();
    bool same = true;
    for (auto& s : dumps) same = same && s == dumps[0];
    out = std::string("ok same=") + (same ? "1" : "0");
    return;
  }
  if ((t[0] == "thr-pool" || t[0] == "thr-poolcopy") && t.size() == 4) {
#ifdef SONIC_LOCKED_ALLOCATOR
    const bool per_thread_copy = t[0] == "thr-poolcopy";
    uint64_t nt, nops, seed;
    if (!parse_u64(t[1], nt) || !parse_u64(t[2], nops) || !parse_u64(t[3], seed) || nt < 1 || nt > 32 || nops > 100000) {
      out = "bad-op";
      return;
    }
    MemoryPoolAllocator<> pool(1024);
    MemoryPoolAllocator<>* pool_holder = &pool;
    auto pool_ref = [](MemoryPoolAllocator<>* p) -> MemoryPoolAllocator<>& { return *p; };
    // thr-poolcopy: every thread works through its own COPY of the allocator (copies share one pool); the copies are made
    // here, before the threads start, so the reference count itself is not touched concurrently
    std::vector<std::unique_ptr<MemoryPoolAllocator<>>> copies;
    struct Blk {
      uint8_t* p;
      size_t n;
      uint8_t tag;
    };
    std::vector<std::vector<Blk>> owned(nt);
    std::vector<int> bad(nt, 0);
    std::atomic<int> go{0};
    if (per_thread_copy)
      for (size_t i = 0; i < nt; i++) copies.emplace_back(new MemoryPoolAllocator<>(pool));
    auto work = [&](size_t ti) {
      while (!go.load(std::memory_order_acquire)) {
      }
      MemoryPoolAllocator<>& pool = per_thread_copy ? *copies[ti] : *(&pool_ref(pool_holder));
      uint64_t x = seed * 2654435761u + ti * 0x9e3779b97f4a7c15ull + 1;
      auto rnd = [&]() {
        x ^= x << 13;
        x ^= x >> 7;
        x ^= x << 17;
        return x;
      };
      auto& mine = owned[ti];
      for (uint64_t k = 0; k < nops; k++) {
        uint64_t r = rnd();
        if (mine.empty() || (r & 3) != 0) {
          size_t n = 1 + (rnd() % ((r & 16) ? 2000 : 64));
          uint8_t* p = (uint8_t*)pool.Malloc(n);
          if (!p) { bad[ti] |= 1; continue; }
          uint8_t tag = (uint8_t)(ti * 37 + mine.size() * 11 + 1);
          memset(p, tag, n);
          mine.push_back(Blk{p, n, tag});
        } else {
          Blk& b = mine[rnd() % mine.size()];
          size_t n2 = b.n + 1 + (rnd() % 200);
          uint8_t* q = (uint8_t*)pool.Realloc(b.p, b.n, n2);
          if (!q) { bad[ti] |= 1; continue; }
          for (size_t i = 0; i < b.n; i++)
            if (q[i] != b.tag) { bad[ti] |= 2; break; }
          memset(q, b.tag, n2);
          b.p = q;
          b.n = n2;
        }
        for (auto& b : mine)
          for (size_t i = 0; i < b.n; i += 97)
            if (b.p[i] != b.tag) { bad[ti] |= 4; break; }
      }
    };
    std::vector<std::thread> th;
    for (size_t i = 0; i < nt; i++) th.emplace_back(work, i);
    go.store(1, std::memory_order_release);
    for (auto& x : th) x.join();
    std::vector<std::pair<uintptr_t, uintptr_t>> rs;
    bool aligned = true, intact = true;
    for (size_t ti = 0; ti < nt; ti++) {
      if (bad[ti]) intact = false;
      for (auto& b : owned[ti]) {
        rs.push_back({(uintptr_t)b.p, (uintptr_t)b.p + b.n});
        if ((uintptr_t)b.p % 8) aligned = false;
        for (size_t i = 0; i < b.n; i++)
          if (b.p[i] != b.tag) { intact = false; break; }
      }
    }
    std::sort(rs.begin(), rs.end());
    bool disjoint = true;
    for (size_t i = 1; i < rs.size(); i++)
      if (rs[i].first < rs[i - 1].second) disjoint = false;
    out = "ok blocks=" + std::to_string(rs.size()) + " disjoint=" + (disjoint ? "1" : "0") + " aligned=" + (aligned ? "1" : "0") +
          " intact=" + (intact ? "1" : "0");
#else
    out = "unsupported";
#endif
    return;
  }
  out = "bad-op";
}

}  // namespace vthr
