// parse / parse-seq : see /verif/protocol/parse.md
#pragma once
#include "allocators.h"
#include "common.h"
#include "guard.h"

namespace vparse {

template <typename N>
static void tree(const N& n, std::string& out) {
  if (n.IsNull()) {
    out += 'n';
  } else if (n.IsBool()) {
    out += n.GetBool() ? 't' : 'f';
  } else if (n.IsNumber()) {
    if (n.IsUint64()) {
      out += 'u';
      out += std::to_string(n.GetUint64());
      // GetDouble() is legal on every number kind: it must be the conversion of the exact integer
      if (n.GetDouble() != static_cast<double>(n.GetUint64())) out += "?getdouble";
    } else if (n.IsInt64()) {
      out += 'i';
      out += std::to_string(n.GetInt64());
      if (n.GetDouble() != static_cast<double>(n.GetInt64())) out += "?getdouble";
    } else if (n.IsDouble()) {
      double d = n.GetDouble();
      uint64_t b;
      memcpy(&b, &d, 8);
      out += 'd';
      out += std::to_string(b);
    } else {
      out += "?num";
    }
  } else if (n.IsString()) {
    auto sv = n.GetStringView();
    out += 's';
    hex_append(out, sv.data(), sv.size());
  } else if (n.IsArray()) {
    out += '[';
    size_t k = 0, sz = n.Size();
    for (auto it = n.Begin(); it != n.End(); ++it, ++k) {
      if (k) out += ',';
      tree(*it, out);
    }
    if (k != sz) out += "?size";
    out += ']';
  } else if (n.IsObject()) {
    out += '{';
    size_t k = 0, sz = n.Size();
    for (auto it = n.MemberBegin(); it != n.MemberEnd(); ++it, ++k) {
      if (k) out += ',';
      auto sv = it->name.GetStringView();
      out += 'k';
      hex_append(out, sv.data(), sv.size());
      out += ':';
      tree(it->value, out);
    }
    if (k != sz) out += "?size";
    out += '}';
  } else if (n.IsRaw()) {
    auto sv = n.GetRaw();
    out += 'r';
    hex_append(out, sv.data(), sv.size());
  } else {
    out += "?type";
  }
}

template <typename Doc>
static void one(Doc& d, const std::string& text, std::string& out) {
  // exact-size heap copy of the input: an over-read of the caller's buffer is visible to ASan
  char* in = (char*)std::malloc(text.size() ? text.size() : 1);
  memcpy(in, text.data(), text.size());
  d.Parse(in, text.size());
  std::free(in);
  if (!d.HasParseError()) {
    out += "ok off=" + std::to_string(d.GetErrorOffset()) + " tree=";
    tree(d, out);
  } else {
    out += "err=" + std::to_string((int)d.GetParseError()) + " off=" + std::to_string(d.GetErrorOffset()) +
           " null=" + (d.IsNull() ? "1" : "0");
  }
}

template <typename Doc>
static void run(const std::vector<std::string>& t, std::string& out, typename Doc::Allocator* a = nullptr) {
  Doc d(a);
  for (size_t i = 2; i < t.size(); i++) {
    std::string text;
    if (!unhex(t[i], text)) {
      out = "bad-op";
      return;
    }
    if (i > 2) out += " | ";
    one(d, text, out);
  }
}

using PoolDoc = sonic_json::Document;
using SimpleDoc = sonic_json::GenericDocument<sonic_json::DNode<sonic_json::SimpleAllocator>>;
using TrackDoc = sonic_json::GenericDocument<sonic_json::DNode<vh::TrackingAllocator>>;
using GuardDoc = sonic_json::GenericDocument<sonic_json::DNode<vh::GuardAllocator>>;
// pool allocator whose chunks come from the guard allocator and have the minimal capacity: every pool block is its own chunk
// and ends (up to 8-byte alignment) at a PROT_NONE page, so the non-freeing pool configuration gets exact bounds too
using GPool = sonic_json::MemoryPoolAllocator<vh::GuardAllocator>;
using GPoolDoc = sonic_json::GenericDocument<sonic_json::DNode<GPool>>;

static void cmd(const std::vector<std::string>& t, std::string& out) {
  if (t.size() < 3 || (t[0] == "parse" && t.size() != 3)) {
    out = "bad-op";
    return;
  }
  if (t[1] == "pool") {
    run<PoolDoc>(t, out);
  } else if (t[1] == "simple") {
    run<SimpleDoc>(t, out);
  } else if (t[1] == "track") {
    vh::ledger().reset();
    run<TrackDoc>(t, out);
    if (out != "bad-op") out += " ledger=" + vh::ledger().report(true);
  } else if (t[1] == "guard") {
    size_t before = vh::GuardAllocator::live();
    run<GuardDoc>(t, out);
    if (out != "bad-op" && vh::GuardAllocator::live() != before) out += " guardleak";
  } else if (t[1].compare(0, 6, "upool-") == 0) {
    // upool-<N>-<E>: MemoryPoolAllocator over a USER-SUPPLIED buffer of exactly N bytes; 16 canary bytes in front of it, E (0..7)
    // canary bytes behind it, then a PROT_NONE page: the buffer starts at an address = -(N+E) mod 8 (every start/end misalignment is
    // reached by varying N and E). A pool that claims more than the buffer either faults or clobbers a canary (reported as CANARY).
    uint64_t n, e;
    size_t dash = t[1].find('-', 6);
    if (dash == std::string::npos || !parse_u64(t[1].substr(6, dash - 6), n) || !parse_u64(t[1].substr(dash + 1), e) || n < 72 ||
        n > (1u << 20) || e > 7) {
      out = "bad-op";
      return;
    }
    GuardBlock gb((size_t)n + (size_t)e + 16);
    memset(gb.p, 0xC7, (size_t)n + (size_t)e + 16);
    uint8_t* buf = gb.p + 16;
    {
      sonic_json::MemoryPoolAllocator<> a(buf, (size_t)n);
      run<PoolDoc>(t, out, &a);
    }
    bool clobbered = false;
    for (size_t i = 0; i < 16; i++) clobbered |= gb.p[i] != 0xC7;
    for (size_t i = 0; i < e; i++) clobbered |= buf[n + i] != 0xC7;
    if (clobbered && out != "bad-op") out += " CANARY";
  } else if (t[1] == "gpool") {
    size_t before = vh::GuardAllocator::live();
    {
      GPool a(1);
      run<GPoolDoc>(t, out, &a);
    }
    if (out != "bad-op" && vh::GuardAllocator::live() != before) out += " guardleak";
  } else {
    out = "bad-op";
  }
}

}  // namespace vparse
