// Correspondence harness: speaks the line protocol of lean/Sonic/Driver.lean against the real
// sonic-cpp headers of /repo's working tree.  One command per input line, exactly one output line per
// command.  Built by check.py in several configurations (avx2 / sse / dyn  x  prod / san).
//
// Private state is reached with -fno-access-control (harness only; /repo is not modified).
#include <sys/mman.h>
#include <unistd.h>

#include <cinttypes>
#include <csetjmp>
#include <csignal>
#include <cstdio>
#include <cstdlib>
#include <cstring>
#include <iostream>
#include <map>
#include <sstream>
#include <string>
#include <algorithm>
#include <vector>

#include "sonic/sonic.h"
#include "sonic/experiment/lazy_update.h"

#include "common.h"
#include "cmd_dom.h"
#include "cmd_itoa.h"
#include "cmd_ftoa.h"
#include "cmd_memcmp.h"
#include "cmd_xmemcpy.h"
#include "cmd_merge.h"
#include "cmd_number.h"
#include "cmd_ondemand.h"
#include "cmd_parse.h"
#include "cmd_pool.h"
#include "cmd_quote.h"
#include "cmd_ser.h"
#include "cmd_strdec.h"
#include "cmd_threads.h"

int main(int argc, char** argv) {
  std::ios::sync_with_stdio(false);
  if (getenv("VERIF_FLUSH")) setvbuf(stdout, nullptr, _IONBF, 0);  // crash attribution: one write per line
  std::string line;
  std::string out;
  out.reserve(1 << 16);
  static vpool::State pool_state;
  while (std::getline(std::cin, line)) {
    std::vector<std::string> tok = split(line);
    out.clear();
    if (tok.empty()) {
      out = "bad-op";
    } else if (tok[0] == "u64toa" || tok[0] == "i64toa") {
      cmd_itoa(tok, out);
    } else if (tok[0] == "f64toa") {
      cmd_ftoa(tok, out);
    } else if (tok[0] == "atof" || tok[0].compare(0, 5, "prim-") == 0) {
      vnum::cmd(tok, out);
    } else if (tok[0] == "ondemand" || tok[0] == "pod") {
      vod::cmd(tok, out);
    } else if (tok[0] == "docbuf" || tok[0] == "schema" || tok[0] == "schema-copy" || tok[0] == "schema-swap" || tok[0] == "schema-reparse" || tok[0].compare(0, 11, "schema-prep") == 0 || tok[0] == "lazy") {
      vmerge::cmd(tok, out);
    } else if (tok[0].compare(0, 4, "dom-") == 0) {
      vdom::cmd(tok, out);
    } else if (tok[0] == "ser" || tok[0] == "serv") {
      cmd_ser(tok, out);
    } else if (tok[0].compare(0, 4, "thr-") == 0) {
      vthr::cmd(tok, out);
    } else if (tok[0] == "memcmp") {
      cmd_memcmp(tok, out);
    } else if (tok[0] == "xmemcpy") {
      cmd_xmemcpy(tok, out);
    } else if (tok[0] == "quote") {
      cmd_quote(tok, out);
    } else if (tok[0] == "parse" || tok[0] == "parse-seq") {
      vparse::cmd(tok, out);
    } else if (tok[0] == "parsestr") {
      cmd_parsestr(tok, out);
    } else if (tok[0].compare(0, 5, "pool-") == 0) {
      vpool::cmd(pool_state, tok, out);
    } else {
      out = "bad-op";
    }
    out.push_back('\n');
    fwrite(out.data(), 1, out.size(), stdout);
  }
  fflush(stdout);
  pool_state.reset();
  vdom::finish(nullptr);
  vh::ledger().reset();
  return 0;
}
