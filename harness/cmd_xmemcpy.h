// xmemcpy <16|32> <chunks>   — see /verif/protocol/parse.md (children-block copy used by the SAX handlers)
#pragma once
#include "common.h"
#include "guard.h"

static void cmd_xmemcpy(const std::vector<std::string>& t, std::string& out) {
  uint64_t size, chunks;
  if (t.size() != 3 || !parse_u64(t[1], size) || !parse_u64(t[2], chunks) || (size != 16 && size != 32) || chunks > 100000) {
    out = "bad-op";
    return;
  }
  size_t n = (size_t)(size * chunks);
  // source: exactly n bytes ending at a PROT_NONE page (an over-read faults); destination: n bytes + 128 poisoned bytes that must
  // stay untouched, the whole block ending at a PROT_NONE page (a store beyond the 128 extra bytes faults)
  GuardBlock src(n), dst(n + 128);
  for (size_t i = 0; i < n; i++) src.p[i] = (uint8_t)(i * 131 + (i >> 8) + 7);
  memset(dst.p, 0xA5, n + 128);
  if (size == 16)
    sonic_json::internal::Xmemcpy<16>(dst.p, src.p, (size_t)chunks);
  else
    sonic_json::internal::Xmemcpy<32>(dst.p, src.p, (size_t)chunks);
  for (size_t i = 0; i < n + 128; i++) {
    uint8_t want = i < n ? src.p[i] : 0xA5;
    if (dst.p[i] != want) {
      out = "bad cell=" + std::to_string(i / 16);
      return;
    }
  }
  out = "ok";
}
