// shared helpers for the harness command files
#pragma once
#include <cstdint>
#include <string>
#include <vector>

static inline std::vector<std::string> split(const std::string& s) {
  std::vector<std::string> r;
  size_t i = 0;
  while (i < s.size()) {
    while (i < s.size() && (s[i] == ' ' || s[i] == '\r' || s[i] == '\t')) i++;
    size_t j = i;
    while (j < s.size() && s[j] != ' ' && s[j] != '\r' && s[j] != '\t') j++;
    if (j > i) r.push_back(s.substr(i, j - i));
    i = j;
  }
  return r;
}

static inline int hexval(char c) {
  if (c >= '0' && c <= '9') return c - '0';
  if (c >= 'a' && c <= 'f') return c - 'a' + 10;
  if (c >= 'A' && c <= 'F') return c - 'A' + 10;
  return -1;
}

// "-" is the empty byte string
static inline bool unhex(const std::string& h, std::string& out) {
  out.clear();
  if (h == "-") return true;
  if (h.size() % 2) return false;
  for (size_t i = 0; i < h.size(); i += 2) {
    int a = hexval(h[i]), b = hexval(h[i + 1]);
    if (a < 0 || b < 0) return false;
    out.push_back((char)(a * 16 + b));
  }
  return true;
}

static inline void hex_append(std::string& out, const void* p, size_t n) {
  static const char* d = "0123456789abcdef";
  if (n == 0) {
    out.push_back('-');
    return;
  }
  const uint8_t* b = (const uint8_t*)p;
  for (size_t i = 0; i < n; i++) {
    out.push_back(d[b[i] >> 4]);
    out.push_back(d[b[i] & 15]);
  }
}

static inline bool parse_u64(const std::string& s, uint64_t& v) {
  if (s.empty() || s.size() > 20) return false;
  unsigned __int128 a = 0;
  for (char c : s) {
    if (c < '0' || c > '9') return false;
    a = a * 10 + (c - '0');
  }
  if (a >> 64) return false;
  v = (uint64_t)a;
  return true;
}
