// f64toa <bits>   — see /verif/protocol/ftoa.md
#pragma once
#include "cmd_parse.h"
#include "common.h"

static void cmd_ftoa(const std::vector<std::string>& t, std::string& out) {
  uint64_t bits;
  if (t.size() != 2 || !parse_u64(t[1], bits)) {
    out = "bad-op";
    return;
  }
  double d;
  memcpy(&d, &bits, 8);
  alignas(16) unsigned char raw[16 + 64 + 16];
  memset(raw, 0xAA, sizeof(raw));
  char* buf = (char*)raw + 16;
  int n = sonic_json::internal::F64toa(buf, d);
  if (n == 0) {
    out = "nonfinite";
    return;
  }
  size_t ext = 0;
  for (size_t i = 0; i < 64 + 16; i++)
    if ((unsigned char)buf[i] != 0xAA) ext = i + 1;
  bool under = false;
  for (size_t i = 0; i < 16; i++)
    if (raw[i] != 0xAA) under = true;
  hex_append(out, buf, (size_t)n);
  out += " ext=" + std::to_string(ext);
  if (under) out += " UNDERWRITE";
  // read back through the library's own parser
  sonic_json::Document doc;
  doc.Parse(buf, (size_t)n);
  out += " rb=";
  if (doc.HasParseError()) {
    out += "err" + std::to_string((int)doc.GetParseError());
  } else {
    vparse::tree(doc, out);
  }
}
