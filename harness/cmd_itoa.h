// u64toa <n> | i64toa <two's-complement bits as decimal>
// output: <hex of [buf, returned pointer)> ext=<one past the highest byte index actually written>
#pragma once
#include "common.h"

static void cmd_itoa(const std::vector<std::string>& tok, std::string& out) {
  uint64_t v;
  if (tok.size() != 2 || !parse_u64(tok[1], v)) {
    out = "bad-op";
    return;
  }
  // 0xAA is no digit and no '-': every stored byte is visible.  Guard bands before/after.
  alignas(16) unsigned char raw[16 + 64 + 16];
  memset(raw, 0xAA, sizeof(raw));
  char* buf = (char*)raw + 16;
  char* end = tok[0] == "u64toa" ? sonic_json::internal::U64toa(buf, v)
                                 : sonic_json::internal::I64toa(buf, (int64_t)v);
  size_t ext = 0;
  for (size_t i = 0; i < 64 + 16; i++)
    if ((unsigned char)buf[i] != 0xAA) ext = i + 1;
  bool under = false;
  for (size_t i = 0; i < 16; i++)
    if (raw[i] != 0xAA) under = true;
  hex_append(out, buf, (size_t)(end - buf));
  out += " ext=" + std::to_string(ext);
  if (under) out += " UNDERWRITE";
}
