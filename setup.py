#!/usr/bin/env python3
"""MANIFEST.setup_cmd: build the framework from files on disk only (offline): regenerate the tables from /repo,
build the whole Lean library (all theorems) and the model driver, pre-build the harness binaries."""
import os, sys, concurrent.futures as cf
ROOT = os.path.dirname(os.path.abspath(__file__))
sys.path.insert(0, ROOT)
from lib import core
import importlib

o = core.step_gen()
print(o.name, o.ok, o.detail)
ok, log = core.lake_build(["Sonic", "sonic_model"], timeout=7200)
print(log[-2000:])
cfgs = set()
for f in sorted(os.listdir(os.path.join(ROOT, "props"))):
    if f.startswith("c") and f.endswith(".py"):
        m = importlib.import_module("props." + f[:-3])
        for c in list(m.CONFIGS) + list(getattr(m, "CONFIGS_THOROUGH", [])):
            cfgs.add(core.norm_cfg(c))
with cf.ThreadPoolExecutor(max_workers=core.NPROC) as ex:
    for c, (exe, err) in zip(sorted(cfgs), ex.map(lambda c: core.build_harness(*c), sorted(cfgs))):
        print("harness", c, "ok" if exe else "FAILED\n" + err)
sys.exit(0 if ok and o.ok else 1)
