#!/usr/bin/env python3
"""check.py <property-id> [--tier quick|thorough] [--replay FILE]

Decides one property of /verif/properties.jsonl for /repo's *current working tree*:

  1 gen      tools/dump_tables.cpp is compiled against /repo/include and its output translated into
             lean/Sonic/Gen/Tables.lean (tables/constants as the compiler sees them now)
  2 prove    lake build Sonic.Props.<id> (kernel re-checks every theorem against the regenerated tables)
             and the model driver `sonic_model`
  3 audit    forbidden-token grep + `#print axioms` of every property theorem
             (thorough: also `leanchecker` on the property module)
  4 build    harness binaries from /repo's working tree (cached by content hash of include tree + flags)
  5 run      corpus(seed, tier) -> harness(es) and Lean driver -> canonical comparison (L1 / L2)
  6 search   on a failed obligation or mismatch: look for a concrete input on which the implementation
             violates the property (spec oracle), minimise, write /verif/replays/<id>-<digest>.json
  7 triage   against /verif/known_findings.json  ->  KNOWN-FINDING lines (exit 0) or VIOLATION (exit 1)
  8 evidence /verif/evidence/<id>.json

Exit 0: property held on everything explored.  Exit 1: a line `VIOLATION property=<id> replay=<path>`.
"""
import argparse
import importlib
import json
import os
import sys
import time

ROOT = os.path.dirname(os.path.abspath(__file__))
sys.path.insert(0, ROOT)
from lib import core  # noqa: E402


def main():
    ap = argparse.ArgumentParser()
    ap.add_argument("prop")
    ap.add_argument("--tier", default=os.environ.get("VERIF_TIER", "quick"), choices=["quick", "thorough"])
    ap.add_argument("--replay", default=None)
    args = ap.parse_args()
    seed = int(os.environ.get("VERIF_SEED", "1"))
    pid = args.prop.upper()
    try:
        mod = importlib.import_module("props." + pid.lower())
    except ImportError as e:
        print(f"check.py: no check for {pid}: {e}")
        sys.exit(2)
    run = core.Run(pid, args.tier, seed, mod)
    if args.replay:
        sys.exit(run.replay(args.replay))
    sys.exit(run.execute())


if __name__ == "__main__":
    main()
